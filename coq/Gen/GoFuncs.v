(* GENERATED from the Go source by /verif/translator (go2coq.go) on every check run — do not edit.
   One definition per translated Go function: its BODY, statement by statement, in the res
   monad of Lib/GoBytes.v.  Proofs/GenEq*.v prove each one equal to the hand-written model.
   A function outside the supported subset appears as  go_<pkg>_<func>_UNSUPPORTED. *)
From Verif Require Import GoBytes LineLib CapsLib Base64.
Open Scope Z_scope.

(* uint8 arithmetic wraps modulo 256 (operands are bytes, < 256) *)
Definition go_byte_add (a b : N) : N := ((a + b) mod 256)%N.
Definition go_byte_sub (a b : N) : N := ((a + 256 - b) mod 256)%N.
Definition go_byte_mul (a b : N) : N := ((a * b) mod 256)%N.
(* string(c) for a byte c: the UTF-8 encoding of the code point c *)
Definition go_string_of_byte (c : N) : bytes :=
  if (c <? 128)%N then [c] else [(192 + c / 64)%N; (128 + c mod 64)%N].
(* x / y and x % y on int with a divisor that is not a non-zero constant *)
Definition go_int_quot (a b : Z) : res Z := if b =? 0 then Panic else Ok (Z.quot a b).
Definition go_int_rem (a b : Z) : res Z := if b =? 0 then Panic else Ok (Z.rem a b).
(* m[k] and delete(m, k) on a map[string]bool (CapsLib.kmap) *)
Definition go_kmap_get (m : kmap) (k : bytes) : bool := match km_get m k with Some v => v | None => false end.
Definition go_kmap_delete (m : kmap) (k : bytes) : kmap := km_filter (fun x => negb (beq x k)) m.
(* a []byte is an option (None = nil); its content *)
Definition go_nbytes (b : option bytes) : bytes := match b with Some x => x | None => [] end.
(* base64.StdEncoding.DecodeString: (decoded, err) *)
Definition go_b64_decode (s : bytes) : option bytes * bool :=
  match b64_decode s with Some b => (Some b, false) | None => (None, true) end.
(* x != nil on a pointer, an interface value or a map *)
Definition go_is_some {A} (o : option A) : bool := match o with Some _ => true | None => false end.
(* m[k] = v on a map[string]string (None = nil map: assignment panics) *)
Definition go_map_set (m : option tagmap) (k v : bytes) : res (option tagmap) :=
  match m with Some mm => Ok (Some (tags_set mm k v)) | None => Panic end.

(* cutNewLines — client/commands.go *)
Definition go_client_cutNewLines (s : bytes) : res bytes :=
  let r : list bytes := split2 s [13]%N in
  t1 <- elem_at r 0 ;;
  let r : list bytes := split2 t1 [10]%N in
  elem_at r 0.

(* indexFragment — client/commands.go *)
Definition go_client_indexFragment (s : bytes) : res Z :=
  let max : Z := (-1) in
  let fix loop1 (l : list bytes) (max : Z) {struct l} : Z :=
      match l with
      | [] => max
      | sep :: l' =>
          let idx : Z := last_index s sep in
          let max : Z := (
              if idx >? max then
                idx
              else
                max) in
          loop1 l' max
      end in
  let max := loop1 [[46; 32]%N; [58; 32]%N; [59; 32]%N; [44; 32]%N; [33; 32]%N; [63; 32]%N; [34; 32]%N; [39; 32]%N] max in
  if max >? 0 then
    Ok (max + 2)
  else
    (let idx_1 : Z := last_index s [32]%N in
    if idx_1 >? 0 then
      Ok (idx_1 + 1)
    else
      Ok (-1)).

(* splitMessage — client/commands.go *)
Definition go_client_splitMessage (msg : bytes) (splitLen : Z) : res (list bytes) :=
  let msgs : list bytes := [] in
  let splitLen : Z := (
      if splitLen <? 13 then
        450
      else
        splitLen) in
  let fix loop1 (fuel : nat) (msg : bytes) (msgs : list bytes) {struct fuel} : res (bytes * list bytes) :=
      if len msg >? splitLen then
        (match fuel with
        | O => Panic
        | S fuel' =>
            t1 <- slice_to msg (splitLen - 3) ;;
            idx <- go_client_indexFragment t1 ;;
            let idx : Z := (
                if idx <? 0 then
                  splitLen - 3
                else
                  idx) in
            t3 <- slice_to msg idx ;;
            let msgs : list bytes := msgs ++ [t3 ++ [46; 46; 46]%N] in
            msg <- slice_from msg idx ;;
            loop1 fuel' msg msgs
        end)
      else
        Ok (msg, msgs) in
  p1 <- loop1 (S (length msg)) msg msgs ;;
  let '(msg, msgs) := p1 in
  Ok (msgs ++ [msg]).

(* splitArgs — client/commands.go *)
Definition go_client_splitArgs (args : list bytes) (maxLen : Z) : res (list bytes) :=
  let res_ : list bytes := [] in
  let i : Z := 0 in
  let fix loop1 (fuel : nat) (res_ : list bytes) (i : Z) {struct fuel} : res (list bytes * Z) :=
      if i <? llen args then
        (match fuel with
        | O => Panic
        | S fuel' =>
            currArg <- elem_at args i ;;
            let i : Z := i + 1 in
            let fix loop2 (fuel : nat) (i : Z) (currArg : bytes) {struct fuel} : res (Z * bytes) :=
                t3 <- (if i <? llen args then t2 <- elem_at args i ;; Ok (((len currArg + len t2) + 1) <? maxLen) else Ok false) ;;
                if t3 then
                  (match fuel with
                  | O => Panic
                  | S fuel' =>
                      t4 <- elem_at args i ;;
                      let currArg : bytes := currArg ++ ([32]%N ++ t4) in
                      let i : Z := i + 1 in
                      loop2 fuel' i currArg
                  end)
                else
                  Ok (i, currArg) in
            p1 <- loop2 (S (length args + length currArg)) i currArg ;;
            let '(i, currArg) := p1 in
            let res_ : list bytes := res_ ++ [currArg] in
            loop1 fuel' res_ i
        end)
      else
        Ok (res_, i) in
  p2 <- loop1 (S (length args)) res_ i ;;
  let '(res_, i) := p2 in
  Ok res_.

(* DefaultNewNick — client/connection.go *)
Definition go_client_DefaultNewNick (old : bytes) : res bytes :=
  if len old =? 0 then
    Ok [95]%N
  else
    (c <- byte_at old (len old - 1) ;;
    let c : N := (
        if (48%N <=? c)%N && (c <=? 57%N)%N then
          go_byte_add 48%N (go_byte_add (go_byte_sub c 48%N) 1%N mod 10%N)%N
        else
          (if (65%N <=? c)%N && (c <=? 125%N)%N then
            go_byte_add 65%N (go_byte_add (go_byte_sub c 65%N) 1%N mod 61%N)%N
          else
            95%N)) in
    t2 <- slice_to old (len old - 1) ;;
    Ok (t2 ++ go_string_of_byte c)).

(* hasPort — client/connection.go *)
Definition go_client_hasPort (s : bytes) : res bool :=
  Ok (last_index s [58]%N >? last_index s [93]%N).

(* parseUserHost — client/line.go *)
Definition go_client_parseUserHost (uh : bytes) : res (bytes * bytes * bytes * bool) :=
  let nick : bytes := [] in
  let ident : bytes := [] in
  let host : bytes := [] in
  let ok : bool := false in
  let uh : bytes := trim_space uh in
  let '(nidx, uidx) := (index uh [33]%N, index uh [64]%N) in
  if ((uidx =? (-1)) || (nidx =? (-1))) || (nidx >? uidx) then
    Ok ([], [], [], false)
  else
    (t1 <- slice_to uh nidx ;;
    t2 <- slice uh (nidx + 1) uidx ;;
    t3 <- slice_from uh (uidx + 1) ;;
    Ok (t1, t2, t3, true)).

(* Line.Text — client/line.go *)
Definition go_client_Line_Text (line_Args : list bytes) : res bytes :=
  if llen line_Args >? 0 then
    elem_at line_Args (llen line_Args - 1)
  else
    Ok [].

(* Line.Public — client/line.go *)
Definition go_client_Line_Public (line_Args : list bytes) (line_Cmd : bytes) : res bool :=
  let k1 := fun (_ : unit) =>
      Ok false in
  if (beq line_Cmd [80; 82; 73; 86; 77; 83; 71]%N || beq line_Cmd [78; 79; 84; 73; 67; 69]%N) || beq line_Cmd [65; 67; 84; 73; 79; 78]%N then
    (t2 <- (if llen line_Args <? 1 then Ok true else t1 <- elem_at line_Args 0 ;; Ok (beq t1 [])) ;;
    if t2 then
      Ok false
    else
      (t3 <- elem_at line_Args 0 ;;
      t4 <- byte_at t3 0 ;;
      if (((t4 =? 35%N)%N || (t4 =? 38%N)%N) || (t4 =? 43%N)%N) || (t4 =? 33%N)%N then
        Ok true
      else
        k1 tt))
  else
    (let k2 := fun (_ : unit) =>
        k1 tt in
    if beq line_Cmd [67; 84; 67; 80]%N || beq line_Cmd [67; 84; 67; 80; 82; 69; 80; 76; 89]%N then
      (t6 <- (if llen line_Args <? 2 then Ok true else t5 <- elem_at line_Args 1 ;; Ok (beq t5 [])) ;;
      if t6 then
        Ok false
      else
        (t7 <- elem_at line_Args 1 ;;
        t8 <- byte_at t7 0 ;;
        if (((t8 =? 35%N)%N || (t8 =? 38%N)%N) || (t8 =? 43%N)%N) || (t8 =? 33%N)%N then
          Ok true
        else
          k2 tt))
    else
      k2 tt).

(* Line.Target — client/line.go *)
Definition go_client_Line_Target (line_Args : list bytes) (line_Cmd : bytes) (line_Nick : bytes) : res bytes :=
  let k1 := fun (_ : unit) =>
      if llen line_Args >? 0 then
        elem_at line_Args 0
      else
        Ok [] in
  if (beq line_Cmd [80; 82; 73; 86; 77; 83; 71]%N || beq line_Cmd [78; 79; 84; 73; 67; 69]%N) || beq line_Cmd [65; 67; 84; 73; 79; 78]%N then
    (t2 <- go_client_Line_Public line_Args line_Cmd ;;
    if negb t2 then
      Ok line_Nick
    else
      k1 tt)
  else
    (if beq line_Cmd [67; 84; 67; 80]%N || beq line_Cmd [67; 84; 67; 80; 82; 69; 80; 76; 89]%N then
      (t3 <- go_client_Line_Public line_Args line_Cmd ;;
      if negb t3 then
        Ok line_Nick
      else
        elem_at line_Args 1)
    else
      k1 tt).

(* Conn.rateLimit — client/connection.go *)
Definition go_client_Conn_rateLimit (conn_badness : Z) (conn_lastsent : Z) (chars : Z) (now1 : Z) (now2 : Z) : res (Z * Z * Z) :=
  let linetime : Z := 2000000000 + Z.quot (chars * 1000000000) 120 in
  let elapsed : Z := now1 - conn_lastsent in
  let conn_badness : Z := conn_badness + (linetime - elapsed) in
  let conn_badness : Z := (
      if conn_badness <? 0 then
        0
      else
        conn_badness) in
  let conn_lastsent : Z := now2 in
  if conn_badness >? 10000000000 then
    Ok (conn_badness, conn_lastsent, linetime)
  else
    Ok (conn_badness, conn_lastsent, 0).

(* Conn.Raw — client/commands.go *)
Definition go_client_Conn_Raw (rawline : bytes) : res (list bytes) :=
  let out : list bytes := [] in
  t1 <- go_client_cutNewLines rawline ;;
  Ok (out ++ [t1]).

(* Conn.Pass — client/commands.go *)
Definition go_client_Conn_Pass (password : bytes) : res (list bytes) :=
  let out : list bytes := [] in
  t1 <- go_client_Conn_Raw ([80; 65; 83; 83; 32]%N ++ password) ;;
  Ok (out ++ t1).

(* Conn.Nick — client/commands.go *)
Definition go_client_Conn_Nick (nick : bytes) : res (list bytes) :=
  let out : list bytes := [] in
  t1 <- go_client_Conn_Raw ([78; 73; 67; 75; 32]%N ++ nick) ;;
  Ok (out ++ t1).

(* Conn.User — client/commands.go *)
Definition go_client_Conn_User (ident : bytes) (name : bytes) : res (list bytes) :=
  let out : list bytes := [] in
  t1 <- go_client_Conn_Raw ((([85; 83; 69; 82; 32]%N ++ ident) ++ [32; 49; 50; 32; 42; 32; 58]%N) ++ name) ;;
  Ok (out ++ t1).

(* Conn.Join — client/commands.go *)
Definition go_client_Conn_Join (channel : bytes) (key : list bytes) : res (list bytes) :=
  let out : list bytes := [] in
  let k : bytes := [] in
  k <- (
      if llen key >? 0 then
        (t1 <- elem_at key 0 ;;
        Ok ([32]%N ++ t1))
      else
        Ok k) ;;
  t2 <- go_client_Conn_Raw (([74; 79; 73; 78; 32]%N ++ channel) ++ k) ;;
  Ok (out ++ t2).

(* Conn.Part — client/commands.go *)
Definition go_client_Conn_Part (channel : bytes) (message : list bytes) : res (list bytes) :=
  let out : list bytes := [] in
  let msg : bytes := join message [32]%N in
  let msg : bytes := (
      if negb (beq msg []) then
        [32; 58]%N ++ msg
      else
        msg) in
  t1 <- go_client_Conn_Raw (([80; 65; 82; 84; 32]%N ++ channel) ++ msg) ;;
  Ok (out ++ t1).

(* Conn.Kick — client/commands.go *)
Definition go_client_Conn_Kick (channel : bytes) (nick : bytes) (message : list bytes) : res (list bytes) :=
  let out : list bytes := [] in
  let msg : bytes := join message [32]%N in
  let msg : bytes := (
      if negb (beq msg []) then
        [32; 58]%N ++ msg
      else
        msg) in
  t1 <- go_client_Conn_Raw (((([75; 73; 67; 75; 32]%N ++ channel) ++ [32]%N) ++ nick) ++ msg) ;;
  Ok (out ++ t1).

(* Conn.Quit — client/commands.go *)
Definition go_client_Conn_Quit (conn_cfg_QuitMessage : bytes) (message : list bytes) : res (list bytes) :=
  let out : list bytes := [] in
  let msg : bytes := join message [32]%N in
  let msg : bytes := (
      if beq msg [] then
        conn_cfg_QuitMessage
      else
        msg) in
  t1 <- go_client_Conn_Raw ([81; 85; 73; 84; 32; 58]%N ++ msg) ;;
  Ok (out ++ t1).

(* Conn.Whois — client/commands.go *)
Definition go_client_Conn_Whois (nick : bytes) : res (list bytes) :=
  let out : list bytes := [] in
  t1 <- go_client_Conn_Raw ([87; 72; 79; 73; 83; 32]%N ++ nick) ;;
  Ok (out ++ t1).

(* Conn.Who — client/commands.go *)
Definition go_client_Conn_Who (nick : bytes) : res (list bytes) :=
  let out : list bytes := [] in
  t1 <- go_client_Conn_Raw ([87; 72; 79; 32]%N ++ nick) ;;
  Ok (out ++ t1).

(* Conn.Privmsg — client/commands.go *)
Definition go_client_Conn_Privmsg (conn_cfg_SplitLen : Z) (t : bytes) (msg : bytes) : res (list bytes) :=
  let out : list bytes := [] in
  let prefix : bytes := ([80; 82; 73; 86; 77; 83; 71; 32]%N ++ t) ++ [32; 58]%N in
  t1 <- go_client_splitMessage msg conn_cfg_SplitLen ;;
  let fix loop1 (l : list bytes) (out : list bytes) {struct l} : res (list bytes) :=
      match l with
      | [] => Ok out
      | s :: l' =>
          t2 <- go_client_Conn_Raw (prefix ++ s) ;;
          let out : list bytes := out ++ t2 in
          loop1 l' out
      end in
  out <- loop1 t1 out ;;
  Ok out.

(* Conn.Notice — client/commands.go *)
Definition go_client_Conn_Notice (conn_cfg_SplitLen : Z) (t : bytes) (msg : bytes) : res (list bytes) :=
  let out : list bytes := [] in
  t1 <- go_client_splitMessage msg conn_cfg_SplitLen ;;
  let fix loop1 (l : list bytes) (out : list bytes) {struct l} : res (list bytes) :=
      match l with
      | [] => Ok out
      | s :: l' =>
          t2 <- go_client_Conn_Raw ((([78; 79; 84; 73; 67; 69; 32]%N ++ t) ++ [32; 58]%N) ++ s) ;;
          let out : list bytes := out ++ t2 in
          loop1 l' out
      end in
  out <- loop1 t1 out ;;
  Ok out.

(* Conn.Ctcp — client/commands.go *)
Definition go_client_Conn_Ctcp (conn_cfg_SplitLen : Z) (t : bytes) (ctcp : bytes) (arg : list bytes) : res (list bytes) :=
  let out : list bytes := [] in
  t1 <- go_client_splitMessage (join arg [32]%N) conn_cfg_SplitLen ;;
  let fix loop1 (l : list bytes) (out : list bytes) {struct l} : res (list bytes) :=
      match l with
      | [] => Ok out
      | s :: l' =>
          let s : bytes := (
              if negb (beq s []) then
                [32]%N ++ s
              else
                s) in
          t2 <- go_client_Conn_Raw ((((([80; 82; 73; 86; 77; 83; 71; 32]%N ++ t) ++ [32; 58; 1]%N) ++ to_upper ctcp) ++ s) ++ [1]%N) ;;
          let out : list bytes := out ++ t2 in
          loop1 l' out
      end in
  out <- loop1 t1 out ;;
  Ok out.

(* Conn.CtcpReply — client/commands.go *)
Definition go_client_Conn_CtcpReply (conn_cfg_SplitLen : Z) (t : bytes) (ctcp : bytes) (arg : list bytes) : res (list bytes) :=
  let out : list bytes := [] in
  t1 <- go_client_splitMessage (join arg [32]%N) conn_cfg_SplitLen ;;
  let fix loop1 (l : list bytes) (out : list bytes) {struct l} : res (list bytes) :=
      match l with
      | [] => Ok out
      | s :: l' =>
          let s : bytes := (
              if negb (beq s []) then
                [32]%N ++ s
              else
                s) in
          t2 <- go_client_Conn_Raw ((((([78; 79; 84; 73; 67; 69; 32]%N ++ t) ++ [32; 58; 1]%N) ++ to_upper ctcp) ++ s) ++ [1]%N) ;;
          let out : list bytes := out ++ t2 in
          loop1 l' out
      end in
  out <- loop1 t1 out ;;
  Ok out.

(* Conn.Version — client/commands.go *)
Definition go_client_Conn_Version (conn_cfg_SplitLen : Z) (t : bytes) : res (list bytes) :=
  let out : list bytes := [] in
  t1 <- go_client_Conn_Ctcp conn_cfg_SplitLen t [86; 69; 82; 83; 73; 79; 78]%N [] ;;
  Ok (out ++ t1).

(* Conn.Action — client/commands.go *)
Definition go_client_Conn_Action (conn_cfg_SplitLen : Z) (t : bytes) (msg : bytes) : res (list bytes) :=
  let out : list bytes := [] in
  t1 <- go_client_Conn_Ctcp conn_cfg_SplitLen t [65; 67; 84; 73; 79; 78]%N [msg] ;;
  Ok (out ++ t1).

(* Conn.Topic — client/commands.go *)
Definition go_client_Conn_Topic (channel : bytes) (topic : list bytes) : res (list bytes) :=
  let out : list bytes := [] in
  let t : bytes := join topic [32]%N in
  let t : bytes := (
      if negb (beq t []) then
        [32; 58]%N ++ t
      else
        t) in
  t1 <- go_client_Conn_Raw (([84; 79; 80; 73; 67; 32]%N ++ channel) ++ t) ;;
  Ok (out ++ t1).

(* Conn.Mode — client/commands.go *)
Definition go_client_Conn_Mode (t : bytes) (modestring : list bytes) : res (list bytes) :=
  let out : list bytes := [] in
  let mode : bytes := join modestring [32]%N in
  let mode : bytes := (
      if negb (beq mode []) then
        [32]%N ++ mode
      else
        mode) in
  t1 <- go_client_Conn_Raw (([77; 79; 68; 69; 32]%N ++ t) ++ mode) ;;
  Ok (out ++ t1).

(* Conn.Away — client/commands.go *)
Definition go_client_Conn_Away (message : list bytes) : res (list bytes) :=
  let out : list bytes := [] in
  let msg : bytes := join message [32]%N in
  let msg : bytes := (
      if negb (beq msg []) then
        [32; 58]%N ++ msg
      else
        msg) in
  t1 <- go_client_Conn_Raw ([65; 87; 65; 89]%N ++ msg) ;;
  Ok (out ++ t1).

(* Conn.Invite — client/commands.go *)
Definition go_client_Conn_Invite (nick : bytes) (channel : bytes) : res (list bytes) :=
  let out : list bytes := [] in
  t1 <- go_client_Conn_Raw ((([73; 78; 86; 73; 84; 69; 32]%N ++ nick) ++ [32]%N) ++ channel) ;;
  Ok (out ++ t1).

(* Conn.Oper — client/commands.go *)
Definition go_client_Conn_Oper (user : bytes) (pass : bytes) : res (list bytes) :=
  let out : list bytes := [] in
  t1 <- go_client_Conn_Raw ((([79; 80; 69; 82; 32]%N ++ user) ++ [32]%N) ++ pass) ;;
  Ok (out ++ t1).

(* Conn.VHost — client/commands.go *)
Definition go_client_Conn_VHost (user : bytes) (pass : bytes) : res (list bytes) :=
  let out : list bytes := [] in
  t1 <- go_client_Conn_Raw ((([86; 72; 79; 83; 84; 32]%N ++ user) ++ [32]%N) ++ pass) ;;
  Ok (out ++ t1).

(* Conn.Ping — client/commands.go *)
Definition go_client_Conn_Ping (message : bytes) : res (list bytes) :=
  let out : list bytes := [] in
  t1 <- go_client_Conn_Raw ([80; 73; 78; 71; 32; 58]%N ++ message) ;;
  Ok (out ++ t1).

(* Conn.Pong — client/commands.go *)
Definition go_client_Conn_Pong (message : bytes) : res (list bytes) :=
  let out : list bytes := [] in
  t1 <- go_client_Conn_Raw ([80; 79; 78; 71; 32; 58]%N ++ message) ;;
  Ok (out ++ t1).

(* Conn.Cap — client/commands.go *)
Definition go_client_Conn_Cap (subcommmand : bytes) (capabilities : list bytes) : res (list bytes) :=
  let out : list bytes := [] in
  if llen capabilities =? 0 then
    (t1 <- go_client_Conn_Raw ([67; 65; 80; 32]%N ++ subcommmand) ;;
    Ok (out ++ t1))
  else
    (let cmdPrefix : bytes := ([67; 65; 80; 32]%N ++ subcommmand) ++ [32; 58]%N in
    t2 <- go_client_splitArgs capabilities (450 - len cmdPrefix) ;;
    let fix loop1 (l : list bytes) (out : list bytes) {struct l} : res (list bytes) :=
        match l with
        | [] => Ok out
        | args :: l' =>
            t3 <- go_client_Conn_Raw (cmdPrefix ++ args) ;;
            let out : list bytes := out ++ t3 in
            loop1 l' out
        end in
    out <- loop1 t2 out ;;
    Ok out).

(* Conn.Authenticate — client/commands.go *)
Definition go_client_Conn_Authenticate (message : bytes) : res (list bytes) :=
  let out : list bytes := [] in
  t1 <- go_client_Conn_Raw ([65; 85; 84; 72; 69; 78; 84; 73; 67; 65; 84; 69; 32]%N ++ message) ;;
  Ok (out ++ t1).

(* var tagsReplacer = strings.NewReplacer(...) *)
Definition go_client_tagsReplacer : list (bytes * bytes) :=
  [([92; 58]%N, [59]%N); ([92; 115]%N, [32]%N); ([92; 92]%N, [92]%N); ([92; 114]%N, [13]%N); ([92; 110]%N, [10]%N)].

(* ParseLine — client/line.go *)
Definition go_client_ParseLine (s : bytes) : res (option (option tagmap * bytes * bytes * bytes * bytes * bytes * bytes * list bytes)) :=
  let line_Tags : option tagmap := None in
  let line_Nick : bytes := [] in
  let line_Ident : bytes := [] in
  let line_Host : bytes := [] in
  let line_Src : bytes := [] in
  let line_Cmd : bytes := [] in
  let line_Raw : bytes := s in
  let line_Args : list bytes := [] in
  if beq s [] then
    Ok None
  else
    (t1 <- byte_at s 0 ;;
    let k1 := fun (p : bytes * option tagmap) =>
        let '(s, line_Tags) := p in
        if beq s [] then
          Ok None
        else
          (t2 <- byte_at s 0 ;;
          let k2 := fun (p : bytes * bytes * bytes * bytes * bytes) =>
              let '(s, line_Nick, line_Ident, line_Host, line_Src) := p in
              let args : list bytes := split2 s [32; 58]%N in
              t3 <- elem_at args 0 ;;
              let fields_ : list bytes := fields t3 in
              if llen fields_ =? 0 then
                Ok None
              else
                (args <- (
                    if llen args >? 1 then
                      (t4 <- elem_at args 1 ;;
                      Ok (fields_ ++ [t4]))
                    else
                      Ok fields_) ;;
                t5 <- elem_at args 0 ;;
                let line_Cmd : bytes := to_upper t5 in
                line_Args <- (
                    if llen args >? 1 then
                      elems_from args 1
                    else
                      Ok line_Args) ;;
                t8 <- (if (beq line_Cmd [80; 82; 73; 86; 77; 83; 71]%N || beq line_Cmd [78; 79; 84; 73; 67; 69]%N) && (llen line_Args >? 1) then t7 <- elem_at line_Args 1 ;; Ok (len t7 >? 2) else Ok false) ;;
                t10 <- (if t8 then t9 <- elem_at line_Args 1 ;; Ok (has_prefix t9 [1]%N) else Ok false) ;;
                t12 <- (if t10 then t11 <- elem_at line_Args 1 ;; Ok (has_suffix t11 [1]%N) else Ok false) ;;
                p1 <- (
                    if t12 then
                      (t13 <- elem_at line_Args 1 ;;
                      let t : list bytes := split2 (trim t13 [1]%N) [32]%N in
                      line_Args <- (
                          if llen t >? 1 then
                            (t14 <- elem_at t 1 ;;
                            set_elem line_Args 1 t14)
                          else
                            Ok line_Args) ;;
                      t15 <- elem_at t 0 ;;
                      let c : bytes := to_upper t15 in
                      let '(line_Cmd, line_Args) := (
                          if beq c [65; 67; 84; 73; 79; 78]%N && beq line_Cmd [80; 82; 73; 86; 77; 83; 71]%N then
                            (let line_Cmd : bytes := c in
                            (line_Cmd, line_Args))
                          else
                            (let line_Cmd : bytes := (
                                if beq line_Cmd [80; 82; 73; 86; 77; 83; 71]%N then
                                  [67; 84; 67; 80]%N
                                else
                                  [67; 84; 67; 80; 82; 69; 80; 76; 89]%N) in
                            let line_Args : list bytes := [c] ++ line_Args in
                            (line_Cmd, line_Args))) in
                      Ok (line_Cmd, line_Args))
                    else
                      Ok (line_Cmd, line_Args)) ;;
                let '(line_Cmd, line_Args) := p1 in
                Ok (Some (line_Tags, line_Nick, line_Ident, line_Host, line_Src, line_Cmd, line_Raw, line_Args))) in
          if (t2 =? 58%N)%N then
            (let idx : Z := index s [32]%N in
            if negb (idx =? (-1)) then
              (t16 <- slice s 1 idx ;;
              t17 <- slice_from s (idx + 1) ;;
              let '(line_Src, s) := (t16, t17) in
              let line_Host : bytes := line_Src in
              t18 <- go_client_parseUserHost line_Src ;;
              let '(n, i, h, ok) := t18 in
              let '(line_Nick, line_Ident, line_Host) := (
                  if ok then
                    (let line_Nick : bytes := n in
                    let line_Ident : bytes := i in
                    let line_Host : bytes := h in
                    (line_Nick, line_Ident, line_Host))
                  else
                    (line_Nick, line_Ident, line_Host)) in
              k2 (s, line_Nick, line_Ident, line_Host, line_Src))
            else
              Ok None)
          else
            k2 (s, line_Nick, line_Ident, line_Host, line_Src)) in
    if (t1 =? 64%N)%N then
      (let rawTags : bytes := [] in
      let line_Tags : option tagmap := Some [] in
      let idx_1 : Z := index s [32]%N in
      if negb (idx_1 =? (-1)) then
        (t19 <- slice s 1 idx_1 ;;
        t20 <- slice_from s (idx_1 + 1) ;;
        let '(rawTags, s) := (t19, t20) in
        let fix loop1 (l : list bytes) (line_Tags : option tagmap) {struct l} : res (option tagmap) :=
            match l with
            | [] => Ok line_Tags
            | tag :: l' =>
                if beq tag [] then
                  loop1 l' line_Tags
                else
                  (let pair : list bytes := split2 (replace_pairs go_client_tagsReplacer tag) [61]%N in
                  line_Tags <- (
                      if llen pair <? 2 then
                        go_map_set line_Tags tag []
                      else
                        (t21 <- elem_at pair 0 ;;
                        t22 <- elem_at pair 1 ;;
                        go_map_set line_Tags t21 t22)) ;;
                  loop1 l' line_Tags)
            end in
        line_Tags <- loop1 (split_byte rawTags 59%N) line_Tags ;;
        k1 (s, line_Tags))
      else
        Ok None)
    else
      k1 (s, line_Tags)).

(* Line.argslen — client/line.go *)
Definition go_client_Line_argslen (line_Args : list bytes) (minlen : Z) : res bool :=
  if llen line_Args <=? minlen then
    Ok false
  else
    Ok true.

Section WithTracker.

(* type Nick struct { Nick, Ident, Host, Name, Modes, Channels }: the fields Nick, Ident, Host, Name and one abstract component for the others; a *Nick is an option (None = nil) *)
Context {go_state_Nick_rest : Type}.
Variable go_state_Nick_rest_eqb : go_state_Nick_rest -> go_state_Nick_rest -> bool.
Definition go_state_Nick : Type := (bytes * bytes * bytes * bytes * go_state_Nick_rest)%type.
Definition go_state_Nick_get_Nick (p : option go_state_Nick) : res bytes :=
  match p with Some (x1, x2, x3, x4, xr) => Ok x1 | None => Panic end.
Definition go_state_Nick_set_Nick (p : option go_state_Nick) (v : bytes) : res (option go_state_Nick) :=
  match p with Some (x1, x2, x3, x4, xr) => Ok (Some (v, x2, x3, x4, xr)) | None => Panic end.
Definition go_state_Nick_get_Ident (p : option go_state_Nick) : res bytes :=
  match p with Some (x1, x2, x3, x4, xr) => Ok x2 | None => Panic end.
Definition go_state_Nick_set_Ident (p : option go_state_Nick) (v : bytes) : res (option go_state_Nick) :=
  match p with Some (x1, x2, x3, x4, xr) => Ok (Some (x1, v, x3, x4, xr)) | None => Panic end.
Definition go_state_Nick_get_Host (p : option go_state_Nick) : res bytes :=
  match p with Some (x1, x2, x3, x4, xr) => Ok x3 | None => Panic end.
Definition go_state_Nick_set_Host (p : option go_state_Nick) (v : bytes) : res (option go_state_Nick) :=
  match p with Some (x1, x2, x3, x4, xr) => Ok (Some (x1, x2, v, x4, xr)) | None => Panic end.
Definition go_state_Nick_get_Name (p : option go_state_Nick) : res bytes :=
  match p with Some (x1, x2, x3, x4, xr) => Ok x4 | None => Panic end.
Definition go_state_Nick_set_Name (p : option go_state_Nick) (v : bytes) : res (option go_state_Nick) :=
  match p with Some (x1, x2, x3, x4, xr) => Ok (Some (x1, x2, x3, v, xr)) | None => Panic end.
Definition go_state_Nick_eqb (p q : option go_state_Nick) : bool :=
  match p, q with
  | Some (x1, x2, x3, x4, xr), Some (y1, y2, y3, y4, yr) => beq x1 y1 && beq x2 y2 && beq x3 y3 && beq x4 y4 && go_state_Nick_rest_eqb xr yr
  | None, None => true
  | _, _ => false
  end.

(* type ChanPrivs struct { Owner, Admin, Op, HalfOp, Voice }: the fields Owner, Admin, Op, HalfOp, Voice; a *ChanPrivs is an option (None = nil) *)
Definition go_state_ChanPrivs : Type := (bool * bool * bool * bool * bool)%type.
Definition go_state_ChanPrivs_get_Owner (p : option go_state_ChanPrivs) : res bool :=
  match p with Some (x1, x2, x3, x4, x5) => Ok x1 | None => Panic end.
Definition go_state_ChanPrivs_set_Owner (p : option go_state_ChanPrivs) (v : bool) : res (option go_state_ChanPrivs) :=
  match p with Some (x1, x2, x3, x4, x5) => Ok (Some (v, x2, x3, x4, x5)) | None => Panic end.
Definition go_state_ChanPrivs_get_Admin (p : option go_state_ChanPrivs) : res bool :=
  match p with Some (x1, x2, x3, x4, x5) => Ok x2 | None => Panic end.
Definition go_state_ChanPrivs_set_Admin (p : option go_state_ChanPrivs) (v : bool) : res (option go_state_ChanPrivs) :=
  match p with Some (x1, x2, x3, x4, x5) => Ok (Some (x1, v, x3, x4, x5)) | None => Panic end.
Definition go_state_ChanPrivs_get_Op (p : option go_state_ChanPrivs) : res bool :=
  match p with Some (x1, x2, x3, x4, x5) => Ok x3 | None => Panic end.
Definition go_state_ChanPrivs_set_Op (p : option go_state_ChanPrivs) (v : bool) : res (option go_state_ChanPrivs) :=
  match p with Some (x1, x2, x3, x4, x5) => Ok (Some (x1, x2, v, x4, x5)) | None => Panic end.
Definition go_state_ChanPrivs_get_HalfOp (p : option go_state_ChanPrivs) : res bool :=
  match p with Some (x1, x2, x3, x4, x5) => Ok x4 | None => Panic end.
Definition go_state_ChanPrivs_set_HalfOp (p : option go_state_ChanPrivs) (v : bool) : res (option go_state_ChanPrivs) :=
  match p with Some (x1, x2, x3, x4, x5) => Ok (Some (x1, x2, x3, v, x5)) | None => Panic end.
Definition go_state_ChanPrivs_get_Voice (p : option go_state_ChanPrivs) : res bool :=
  match p with Some (x1, x2, x3, x4, x5) => Ok x5 | None => Panic end.
Definition go_state_ChanPrivs_set_Voice (p : option go_state_ChanPrivs) (v : bool) : res (option go_state_ChanPrivs) :=
  match p with Some (x1, x2, x3, x4, x5) => Ok (Some (x1, x2, x3, x4, v)) | None => Panic end.
Definition go_state_ChanPrivs_eqb (p q : option go_state_ChanPrivs) : bool :=
  match p, q with
  | Some (x1, x2, x3, x4, x5), Some (y1, y2, y3, y4, y5) => Bool.eqb x1 y1 && Bool.eqb x2 y2 && Bool.eqb x3 y3 && Bool.eqb x4 y4 && Bool.eqb x5 y5
  | None, None => true
  | _, _ => false
  end.

(* type Channel struct { Name, Topic, Modes, Nicks }: the fields Name, Topic and one abstract component for the others; a *Channel is an option (None = nil) *)
Context {go_state_Channel_rest : Type}.
Variable go_state_Channel_rest_eqb : go_state_Channel_rest -> go_state_Channel_rest -> bool.
Definition go_state_Channel : Type := (bytes * bytes * go_state_Channel_rest)%type.
Definition go_state_Channel_get_Name (p : option go_state_Channel) : res bytes :=
  match p with Some (x1, x2, xr) => Ok x1 | None => Panic end.
Definition go_state_Channel_set_Name (p : option go_state_Channel) (v : bytes) : res (option go_state_Channel) :=
  match p with Some (x1, x2, xr) => Ok (Some (v, x2, xr)) | None => Panic end.
Definition go_state_Channel_get_Topic (p : option go_state_Channel) : res bytes :=
  match p with Some (x1, x2, xr) => Ok x2 | None => Panic end.
Definition go_state_Channel_set_Topic (p : option go_state_Channel) (v : bytes) : res (option go_state_Channel) :=
  match p with Some (x1, x2, xr) => Ok (Some (x1, v, xr)) | None => Panic end.
Definition go_state_Channel_eqb (p q : option go_state_Channel) : bool :=
  match p, q with
  | Some (x1, x2, xr), Some (y1, y2, yr) => beq x1 y1 && beq x2 y2 && go_state_Channel_rest_eqb xr yr
  | None, None => true
  | _, _ => false
  end.

(* type Tracker interface of package state: an abstract state ST and one function per method,
   from the state and the arguments to the new state and the result *)
Record go_state_Tracker (ST : Type) := {
  go_state_Tracker_Associate : ST -> bytes -> bytes -> ST * (option go_state_ChanPrivs);
  go_state_Tracker_ChannelModes : ST -> bytes -> bytes -> list bytes -> ST * (option go_state_Channel);
  go_state_Tracker_DelChannel : ST -> bytes -> ST * (option go_state_Channel);
  go_state_Tracker_DelNick : ST -> bytes -> ST * (option go_state_Nick);
  go_state_Tracker_Dissociate : ST -> bytes -> bytes -> ST;
  go_state_Tracker_GetChannel : ST -> bytes -> ST * (option go_state_Channel);
  go_state_Tracker_GetNick : ST -> bytes -> ST * (option go_state_Nick);
  go_state_Tracker_IsOn : ST -> bytes -> bytes -> ST * (option go_state_ChanPrivs * bool);
  go_state_Tracker_Me : ST -> ST * (option go_state_Nick);
  go_state_Tracker_NewChannel : ST -> bytes -> ST * (option go_state_Channel);
  go_state_Tracker_NewNick : ST -> bytes -> ST * (option go_state_Nick);
  go_state_Tracker_NickInfo : ST -> bytes -> bytes -> bytes -> bytes -> ST * (option go_state_Nick);
  go_state_Tracker_NickModes : ST -> bytes -> bytes -> ST * (option go_state_Nick);
  go_state_Tracker_ReNick : ST -> bytes -> bytes -> ST * (option go_state_Nick);
  go_state_Tracker_String : ST -> ST * bytes;
  go_state_Tracker_Topic : ST -> bytes -> bytes -> ST * (option go_state_Channel);
  go_state_Tracker_Wipe : ST -> ST
}.
Arguments go_state_Tracker_Associate {ST} _.
Arguments go_state_Tracker_ChannelModes {ST} _.
Arguments go_state_Tracker_DelChannel {ST} _.
Arguments go_state_Tracker_DelNick {ST} _.
Arguments go_state_Tracker_Dissociate {ST} _.
Arguments go_state_Tracker_GetChannel {ST} _.
Arguments go_state_Tracker_GetNick {ST} _.
Arguments go_state_Tracker_IsOn {ST} _.
Arguments go_state_Tracker_Me {ST} _.
Arguments go_state_Tracker_NewChannel {ST} _.
Arguments go_state_Tracker_NewNick {ST} _.
Arguments go_state_Tracker_NickInfo {ST} _.
Arguments go_state_Tracker_NickModes {ST} _.
Arguments go_state_Tracker_ReNick {ST} _.
Arguments go_state_Tracker_String {ST} _.
Arguments go_state_Tracker_Topic {ST} _.
Arguments go_state_Tracker_Wipe {ST} _.

Context {ST : Type}.
Variable trk : go_state_Tracker ST.

(* Conn.Me — client/connection.go *)
Definition go_client_Conn_Me (conn_cfg_Me : option go_state_Nick) (conn_st : option ST) : res (option go_state_Nick * option ST * option go_state_Nick) :=
  p1 <- (
      if go_is_some conn_st then
        (p2 <- (match conn_st with None => Panic | Some s_ => let '(s_, r_) := go_state_Tracker_Me trk s_ in Ok (Some s_, r_) end) ;;
        let '(conn_st, t1) := p2 in
        let conn_cfg_Me : option go_state_Nick := t1 in
        Ok (conn_cfg_Me, conn_st))
      else
        Ok (conn_cfg_Me, conn_st)) ;;
  let '(conn_cfg_Me, conn_st) := p1 in
  Ok (conn_cfg_Me, conn_st, conn_cfg_Me).

(* Conn.h_PING — client/handlers.go *)
Definition go_client_Conn_h_PING (line_Args : list bytes) : res (list bytes) :=
  let out : list bytes := [] in
  t1 <- elem_at line_Args 0 ;;
  t2 <- go_client_Conn_Pong t1 ;;
  Ok (out ++ t2).

(* Conn.h_REGISTER — client/handlers.go *)
Definition go_client_Conn_h_REGISTER (conn_cfg_EnableCapabilityNegotiation : bool) (conn_cfg_Me : option go_state_Nick) (conn_cfg_Pass : bytes) : res (list bytes) :=
  let out : list bytes := [] in
  out <- (
      if conn_cfg_EnableCapabilityNegotiation then
        (t1 <- go_client_Conn_Cap [76; 83]%N [] ;;
        Ok (out ++ t1))
      else
        Ok out) ;;
  out <- (
      if negb (beq conn_cfg_Pass []) then
        (t2 <- go_client_Conn_Pass conn_cfg_Pass ;;
        Ok (out ++ t2))
      else
        Ok out) ;;
  t3 <- go_state_Nick_get_Nick conn_cfg_Me ;;
  t4 <- go_client_Conn_Nick t3 ;;
  let out : list bytes := out ++ t4 in
  t5 <- go_state_Nick_get_Ident conn_cfg_Me ;;
  t6 <- go_state_Nick_get_Name conn_cfg_Me ;;
  t7 <- go_client_Conn_User t5 t6 ;;
  Ok (out ++ t7).

(* Conn.h_CTCP — client/handlers.go *)
Definition go_client_Conn_h_CTCP (conn_cfg_SplitLen : Z) (conn_cfg_Version : bytes) (line_Args : list bytes) (line_Nick : bytes) : res (list bytes) :=
  let out : list bytes := [] in
  t1 <- elem_at line_Args 0 ;;
  if beq t1 [86; 69; 82; 83; 73; 79; 78]%N then
    (t2 <- go_client_Conn_CtcpReply conn_cfg_SplitLen line_Nick [86; 69; 82; 83; 73; 79; 78]%N [conn_cfg_Version] ;;
    Ok (out ++ t2))
  else
    (t3 <- elem_at line_Args 0 ;;
    t5 <- (if beq t3 [80; 73; 78; 71]%N then t4 <- go_client_Line_argslen line_Args 2 ;; Ok t4 else Ok false) ;;
    if t5 then
      (t6 <- elem_at line_Args 2 ;;
      t7 <- go_client_Conn_CtcpReply conn_cfg_SplitLen line_Nick [80; 73; 78; 71]%N [t6] ;;
      Ok (out ++ t7))
    else
      Ok out).

(* Conn.h_410 — client/handlers.go *)
Definition go_client_Conn_h_410 (line_Args : list bytes) : res unit :=
  t1 <- elem_at line_Args 1 ;;
  Ok tt.

(* Conn.h_NICK — client/handlers.go *)
Definition go_client_Conn_h_NICK (conn_cfg_Me : option go_state_Nick) (conn_st : option ST) (line_Args : list bytes) (line_Nick : bytes) : res (option go_state_Nick) :=
  t2 <- (if negb (go_is_some conn_st) then t1 <- go_state_Nick_get_Nick conn_cfg_Me ;; Ok (beq line_Nick t1) else Ok false) ;;
  if t2 then
    (t3 <- elem_at line_Args 0 ;;
    go_state_Nick_set_Nick conn_cfg_Me t3)
  else
    Ok conn_cfg_Me.

(* Conn.h_433 — client/handlers.go *)
Definition go_client_Conn_h_433 (conn_cfg_Me : option go_state_Nick) (conn_cfg_NewNick : bytes -> bytes) (conn_st : option ST) (line_Args : list bytes) : res (option go_state_Nick * option ST * list bytes) :=
  let out : list bytes := [] in
  p1 <- go_client_Conn_Me conn_cfg_Me conn_st ;;
  let '(conn_cfg_Me, conn_st, t1) := p1 in
  let me : option go_state_Nick := t1 in
  t2 <- elem_at line_Args 1 ;;
  let neu : bytes := conn_cfg_NewNick t2 in
  t3 <- go_client_Conn_Nick neu ;;
  let out : list bytes := out ++ t3 in
  t4 <- go_client_Line_argslen line_Args 1 ;;
  if negb t4 then
    Ok (conn_cfg_Me, conn_st, out)
  else
    (t5 <- elem_at line_Args 1 ;;
    t6 <- go_state_Nick_get_Nick me ;;
    p2 <- (
        if beq t5 t6 then
          (p3 <- (
              if go_is_some conn_st then
                (t7 <- go_state_Nick_get_Nick me ;;
                p4 <- (match conn_st with None => Panic | Some s_ => let '(s_, r_) := go_state_Tracker_ReNick trk s_ t7 neu in Ok (Some s_, r_) end) ;;
                let '(conn_st, t8) := p4 in
                let n : option go_state_Nick := t8 in
                let conn_cfg_Me : option go_state_Nick := (
                    if go_is_some n then
                      n
                    else
                      conn_cfg_Me) in
                Ok (conn_st, conn_cfg_Me))
              else
                (conn_cfg_Me <- go_state_Nick_set_Nick conn_cfg_Me neu ;;
                Ok (conn_st, conn_cfg_Me))) ;;
          let '(conn_st, conn_cfg_Me) := p3 in
          Ok (conn_st, conn_cfg_Me))
        else
          Ok (conn_st, conn_cfg_Me)) ;;
    let '(conn_st, conn_cfg_Me) := p2 in
    Ok (conn_cfg_Me, conn_st, out)).

(* Conn.h_001 — client/handlers.go *)
Definition go_client_Conn_h_001 (conn_cfg_Me : option go_state_Nick) (conn_st : option ST) (line_Args : list bytes) (line_Cmd : bytes) (line_Nick : bytes) : res (option go_state_Nick * option ST) :=
  p1 <- go_client_Conn_Me conn_cfg_Me conn_st ;;
  let '(conn_cfg_Me, conn_st, t1) := p1 in
  t2 <- go_client_Line_Target line_Args line_Cmd line_Nick ;;
  t3 <- go_client_Line_Text line_Args ;;
  let '(me, nick, t) := (t1, t2, t3) in
  let idx : Z := last_index t [32]%N in
  t <- (
      if negb (idx =? (-1)) then
        slice_from t (idx + 1)
      else
        Ok t) ;;
  t5 <- go_client_parseUserHost t ;;
  let '(_, ident, host, ok) := t5 in
  t6 <- go_state_Nick_get_Nick me ;;
  p2 <- (
      if negb (beq t6 nick) then
        (t7 <- go_state_Nick_get_Nick me ;;
        Ok tt)
      else
        Ok tt) ;;
  let _ : unit := p2 in
  p3 <- (
      if go_is_some conn_st then
        (conn_st <- (
            if ok then
              (t8 <- go_state_Nick_get_Nick me ;;
              t9 <- go_state_Nick_get_Name me ;;
              p4 <- (match conn_st with None => Panic | Some s_ => let '(s_, r_) := go_state_Tracker_NickInfo trk s_ t8 ident host t9 in Ok (Some s_, r_) end) ;;
              let '(conn_st, t10) := p4 in
              Ok conn_st)
            else
              Ok conn_st) ;;
        t11 <- go_state_Nick_get_Nick me ;;
        p5 <- (match conn_st with None => Panic | Some s_ => let '(s_, r_) := go_state_Tracker_ReNick trk s_ t11 nick in Ok (Some s_, r_) end) ;;
        let '(conn_st, t12) := p5 in
        let n : option go_state_Nick := t12 in
        let conn_cfg_Me : option go_state_Nick := (
            if go_is_some n then
              n
            else
              conn_cfg_Me) in
        Ok (conn_st, conn_cfg_Me))
      else
        (conn_cfg_Me <- go_state_Nick_set_Nick conn_cfg_Me nick ;;
        conn_cfg_Me <- (
            if ok then
              (conn_cfg_Me <- go_state_Nick_set_Ident conn_cfg_Me ident ;;
              go_state_Nick_set_Host conn_cfg_Me host)
            else
              Ok conn_cfg_Me) ;;
        Ok (conn_st, conn_cfg_Me))) ;;
  let '(conn_st, conn_cfg_Me) := p3 in
  Ok (conn_cfg_Me, conn_st).

(* capabilitySet — client/handlers.go *)
Definition go_client_capabilitySet : res kmap :=
  Ok km_empty.

(* capSet.Add — client/handlers.go *)
Definition go_client_capSet_Add (c_caps : kmap) (caps : list bytes) : res kmap :=
  let fix loop1 (l : list bytes) (c_caps : kmap) {struct l} : res kmap :=
      match l with
      | [] => Ok c_caps
      | cap :: l' =>
          c_caps <- (
              if has_prefix cap [45]%N then
                (t1 <- slice_from cap 1 ;;
                Ok (km_set c_caps t1 false))
              else
                Ok (km_set c_caps cap true)) ;;
          loop1 l' c_caps
      end in
  c_caps <- loop1 caps c_caps ;;
  Ok c_caps.

(* capSet.Has — client/handlers.go *)
Definition go_client_capSet_Has (c_caps : kmap) (cap : bytes) : res bool :=
  Ok (go_kmap_get c_caps cap).

(* capSet.Intersect — client/handlers.go *)
Definition go_client_capSet_Intersect (c_caps : kmap) (other : kmap) : res kmap :=
  let fix loop1 (l : list bytes) (c_caps : kmap) {struct l} : res kmap :=
      match l with
      | [] => Ok c_caps
      | cap :: l' =>
          t1 <- go_client_capSet_Has other cap ;;
          let c_caps : kmap := (
              if negb t1 then
                go_kmap_delete c_caps cap
              else
                c_caps) in
          loop1 l' c_caps
      end in
  c_caps <- loop1 (km_keys c_caps) c_caps ;;
  Ok c_caps.

(* capSet.Slice — client/handlers.go *)
Definition go_client_capSet_Slice (c_caps : kmap) : res (list bytes) :=
  let capSlice : list bytes := [] in
  let fix loop1 (l : list bytes) (capSlice : list bytes) {struct l} : list bytes :=
      match l with
      | [] => capSlice
      | cap :: l' =>
          let capSlice : list bytes := capSlice ++ [cap] in
          loop1 l' capSlice
      end in
  let capSlice := loop1 (km_keys c_caps) capSlice in
  Ok (isort capSlice).

(* capSet.Size — client/handlers.go *)
Definition go_client_capSet_Size (c_caps : kmap) : res Z :=
  Ok (km_size c_caps).

(* type Client interface of package go-sasl, as an oracle: Start() = (mech, ir, err),
   Next(challenge) = (response, err); a []byte is an option (None = nil), an error a bool *)
Record go_sasl_Client := {
  go_sasl_Client_Start : bytes * option bytes * bool;
  go_sasl_Client_Next : option bytes -> option bytes * bool
}.

(* var defaultCaps = []string{...}, never assigned in the package *)
Definition go_client_defaultCaps : list bytes := [].

(* Conn.getRequestCapabilities — client/handlers.go *)
Definition go_client_Conn_getRequestCapabilities (conn_cfg_Capabilites : list bytes) (conn_cfg_Sasl : option go_sasl_Client) : res kmap :=
  s <- go_client_capabilitySet ;;
  s <- go_client_capSet_Add s go_client_defaultCaps ;;
  s <- (
      if go_is_some conn_cfg_Sasl then
        go_client_capSet_Add s [[115; 97; 115; 108]%N]
      else
        Ok s) ;;
  go_client_capSet_Add s conn_cfg_Capabilites.

(* Conn.negotiateCapabilities — client/handlers.go *)
Definition go_client_Conn_negotiateCapabilities (conn_cfg_Capabilites : list bytes) (conn_cfg_Sasl : option go_sasl_Client) (conn_supportedCaps : kmap) (supportedCaps : list bytes) : res (kmap * list bytes) :=
  let out : list bytes := [] in
  conn_supportedCaps <- go_client_capSet_Add conn_supportedCaps supportedCaps ;;
  reqCaps <- go_client_Conn_getRequestCapabilities conn_cfg_Capabilites conn_cfg_Sasl ;;
  reqCaps <- go_client_capSet_Intersect reqCaps conn_supportedCaps ;;
  t2 <- go_client_capSet_Size reqCaps ;;
  out <- (
      if t2 >? 0 then
        (t3 <- go_client_capSet_Slice reqCaps ;;
        t4 <- go_client_Conn_Cap [82; 69; 81]%N t3 ;;
        Ok (out ++ t4))
      else
        (t5 <- go_client_Conn_Cap [69; 78; 68]%N [] ;;
        Ok (out ++ t5))) ;;
  Ok (conn_supportedCaps, out).

(* Conn.handleCapNak — client/handlers.go *)
Definition go_client_Conn_handleCapNak (caps : list bytes) : res (list bytes) :=
  let out : list bytes := [] in
  t1 <- go_client_Conn_Cap [69; 78; 68]%N [] ;;
  Ok (out ++ t1).

(* Conn.h_903 — client/handlers.go *)
Definition go_client_Conn_h_903 : res (list bytes) :=
  let out : list bytes := [] in
  t1 <- go_client_Conn_Cap [69; 78; 68]%N [] ;;
  Ok (out ++ t1).

(* Conn.h_904 — client/handlers.go *)
Definition go_client_Conn_h_904 : res (list bytes) :=
  let out : list bytes := [] in
  t1 <- go_client_Conn_Cap [69; 78; 68]%N [] ;;
  Ok (out ++ t1).

(* Conn.h_908 — client/handlers.go *)
Definition go_client_Conn_h_908 (line_Args : list bytes) : res (list bytes) :=
  let out : list bytes := [] in
  t1 <- elem_at line_Args 1 ;;
  t2 <- go_client_Conn_Cap [69; 78; 68]%N [] ;;
  Ok (out ++ t2).

(* Conn.handleCapAck — client/handlers.go *)
Definition go_client_Conn_handleCapAck (conn_cfg_Sasl : option go_sasl_Client) (conn_currCaps : kmap) (conn_saslRemainingData : option bytes) (caps : list bytes) : res (kmap * option bytes * list bytes) :=
  let out : list bytes := [] in
  let gotSasl : bool := false in
  let fix loop1 (l : list bytes) (gotSasl : bool) (conn_currCaps : kmap) (conn_saslRemainingData : option bytes) (out : list bytes) {struct l} : res (bool * kmap * option bytes * list bytes) :=
      match l with
      | [] => Ok (gotSasl, conn_currCaps, conn_saslRemainingData, out)
      | cap :: l' =>
          conn_currCaps <- go_client_capSet_Add conn_currCaps [cap] ;;
          let k1 := fun (p : bool * option bytes * list bytes) =>
              let '(gotSasl, conn_saslRemainingData, out) := p in
              loop1 l' gotSasl conn_currCaps conn_saslRemainingData out in
          if go_is_some conn_cfg_Sasl && beq cap [115; 97; 115; 108]%N then
            (t1 <- (match conn_cfg_Sasl with None => Panic | Some c_ => Ok (go_sasl_Client_Start c_) end) ;;
            let '(mech, ir, err) := t1 in
            if err then
              loop1 l' gotSasl conn_currCaps conn_saslRemainingData out
            else
              (let gotSasl : bool := true in
              let conn_saslRemainingData : option bytes := ir in
              t2 <- go_client_Conn_Authenticate mech ;;
              let out : list bytes := out ++ t2 in
              k1 (gotSasl, conn_saslRemainingData, out)))
          else
            k1 (gotSasl, conn_saslRemainingData, out)
      end in
  p1 <- loop1 caps gotSasl conn_currCaps conn_saslRemainingData out ;;
  let '(gotSasl, conn_currCaps, conn_saslRemainingData, out) := p1 in
  out <- (
      if negb gotSasl then
        (t3 <- go_client_Conn_Cap [69; 78; 68]%N [] ;;
        Ok (out ++ t3))
      else
        Ok out) ;;
  Ok (conn_currCaps, conn_saslRemainingData, out).

(* Conn.h_CAP — client/handlers.go *)
Definition go_client_Conn_h_CAP (conn_cfg_Capabilites : list bytes) (conn_cfg_Sasl : option go_sasl_Client) (conn_currCaps : kmap) (conn_saslRemainingData : option bytes) (conn_supportedCaps : kmap) (line_Args : list bytes) : res (kmap * option bytes * kmap * list bytes) :=
  let out : list bytes := [] in
  subcommand <- elem_at line_Args 1 ;;
  t2 <- go_client_Line_Text line_Args ;;
  let caps : list bytes := fields t2 in
  p1 <- (
      if beq subcommand [76; 83]%N then
        (p2 <- go_client_Conn_negotiateCapabilities conn_cfg_Capabilites conn_cfg_Sasl conn_supportedCaps caps ;;
        let '(conn_supportedCaps, t3) := p2 in
        let out : list bytes := out ++ t3 in
        Ok (conn_currCaps, conn_saslRemainingData, conn_supportedCaps, out))
      else
        (p3 <- (
            if beq subcommand [65; 67; 75]%N then
              (p4 <- go_client_Conn_handleCapAck conn_cfg_Sasl conn_currCaps conn_saslRemainingData caps ;;
              let '(conn_currCaps, conn_saslRemainingData, t4) := p4 in
              let out : list bytes := out ++ t4 in
              Ok (conn_currCaps, conn_saslRemainingData, out))
            else
              (out <- (
                  if beq subcommand [78; 65; 75]%N then
                    (t5 <- go_client_Conn_handleCapNak caps ;;
                    Ok (out ++ t5))
                  else
                    Ok out) ;;
              Ok (conn_currCaps, conn_saslRemainingData, out))) ;;
        let '(conn_currCaps, conn_saslRemainingData, out) := p3 in
        Ok (conn_currCaps, conn_saslRemainingData, conn_supportedCaps, out))) ;;
  let '(conn_currCaps, conn_saslRemainingData, conn_supportedCaps, out) := p1 in
  Ok (conn_currCaps, conn_saslRemainingData, conn_supportedCaps, out).

(* Conn.h_AUTHENTICATE — client/handlers.go *)
Definition go_client_Conn_h_AUTHENTICATE (conn_cfg_Sasl : option go_sasl_Client) (conn_saslRemainingData : option bytes) (line_Args : list bytes) : res (option bytes * list bytes) :=
  let out : list bytes := [] in
  if negb (go_is_some conn_cfg_Sasl) then
    Ok (conn_saslRemainingData, out)
  else
    (if go_is_some conn_saslRemainingData then
      (let data : bytes := [43]%N in
      let data : bytes := (
          if len (go_nbytes conn_saslRemainingData) >? 0 then
            b64_encode (go_nbytes conn_saslRemainingData)
          else
            data) in
      t1 <- go_client_Conn_Authenticate data ;;
      let out : list bytes := out ++ t1 in
      let conn_saslRemainingData : option bytes := None in
      Ok (conn_saslRemainingData, out))
    else
      (t2 <- elem_at line_Args 0 ;;
      let '(challenge, err) := go_b64_decode t2 in
      if err then
        Ok (conn_saslRemainingData, out)
      else
        (t3 <- (match conn_cfg_Sasl with None => Panic | Some c_ => Ok (go_sasl_Client_Next c_ challenge) end) ;;
        let '(response, err) := t3 in
        if err then
          Ok (conn_saslRemainingData, out)
        else
          (let data_1 : bytes := b64_encode (go_nbytes response) in
          t4 <- go_client_Conn_Authenticate data_1 ;;
          let out : list bytes := out ++ t4 in
          Ok (conn_saslRemainingData, out))))).

(* Conn.SupportsCapability — client/connection.go *)
Definition go_client_Conn_SupportsCapability (conn_supportedCaps : kmap) (cap : bytes) : res bool :=
  go_client_capSet_Has conn_supportedCaps cap.

(* Conn.HasCapability — client/connection.go *)
Definition go_client_Conn_HasCapability (conn_currCaps : kmap) (cap : bytes) : res bool :=
  go_client_capSet_Has conn_currCaps cap.

(* Conn.h_STNICK — client/state_handlers.go *)
Definition go_client_Conn_h_STNICK (conn_st : option ST) (line_Args : list bytes) (line_Nick : bytes) : res (option ST) :=
  t1 <- elem_at line_Args 0 ;;
  p1 <- (match conn_st with None => Panic | Some s_ => let '(s_, r_) := go_state_Tracker_ReNick trk s_ line_Nick t1 in Ok (Some s_, r_) end) ;;
  let '(conn_st, t2) := p1 in
  Ok conn_st.

(* Conn.h_PART — client/state_handlers.go *)
Definition go_client_Conn_h_PART (conn_st : option ST) (line_Args : list bytes) (line_Nick : bytes) : res (option ST) :=
  t1 <- elem_at line_Args 0 ;;
  p1 <- (match conn_st with None => Panic | Some s_ => Ok (Some (go_state_Tracker_Dissociate trk s_ t1 line_Nick), tt) end) ;;
  let '(conn_st, t2) := p1 in
  Ok conn_st.

(* Conn.h_KICK — client/state_handlers.go *)
Definition go_client_Conn_h_KICK (conn_st : option ST) (line_Args : list bytes) : res (option ST) :=
  t1 <- go_client_Line_argslen line_Args 1 ;;
  if negb t1 then
    Ok conn_st
  else
    (t2 <- elem_at line_Args 0 ;;
    t3 <- elem_at line_Args 1 ;;
    p1 <- (match conn_st with None => Panic | Some s_ => Ok (Some (go_state_Tracker_Dissociate trk s_ t2 t3), tt) end) ;;
    let '(conn_st, t4) := p1 in
    Ok conn_st).

(* Conn.h_QUIT — client/state_handlers.go *)
Definition go_client_Conn_h_QUIT (conn_st : option ST) (line_Nick : bytes) : res (option ST) :=
  p1 <- (match conn_st with None => Panic | Some s_ => let '(s_, r_) := go_state_Tracker_DelNick trk s_ line_Nick in Ok (Some s_, r_) end) ;;
  let '(conn_st, t1) := p1 in
  Ok conn_st.

(* Conn.h_TOPIC — client/state_handlers.go *)
Definition go_client_Conn_h_TOPIC (conn_st : option ST) (line_Args : list bytes) : res (option ST) :=
  t1 <- go_client_Line_argslen line_Args 1 ;;
  if negb t1 then
    Ok conn_st
  else
    (t2 <- elem_at line_Args 0 ;;
    p1 <- (match conn_st with None => Panic | Some s_ => let '(s_, r_) := go_state_Tracker_GetChannel trk s_ t2 in Ok (Some s_, r_) end) ;;
    let '(conn_st, t3) := p1 in
    let ch : option go_state_Channel := t3 in
    if go_is_some ch then
      (t4 <- elem_at line_Args 0 ;;
      t5 <- elem_at line_Args 1 ;;
      p2 <- (match conn_st with None => Panic | Some s_ => let '(s_, r_) := go_state_Tracker_Topic trk s_ t4 t5 in Ok (Some s_, r_) end) ;;
      let '(conn_st, t6) := p2 in
      Ok conn_st)
    else
      (t7 <- elem_at line_Args 0 ;;
      Ok conn_st)).

(* Conn.h_324 — client/state_handlers.go *)
Definition go_client_Conn_h_324 (conn_st : option ST) (line_Args : list bytes) : res (option ST) :=
  t1 <- go_client_Line_argslen line_Args 2 ;;
  if negb t1 then
    Ok conn_st
  else
    (t2 <- elem_at line_Args 1 ;;
    p1 <- (match conn_st with None => Panic | Some s_ => let '(s_, r_) := go_state_Tracker_GetChannel trk s_ t2 in Ok (Some s_, r_) end) ;;
    let '(conn_st, t3) := p1 in
    let ch : option go_state_Channel := t3 in
    if go_is_some ch then
      (t4 <- elem_at line_Args 1 ;;
      t5 <- elem_at line_Args 2 ;;
      t6 <- elems_from line_Args 3 ;;
      p2 <- (match conn_st with None => Panic | Some s_ => let '(s_, r_) := go_state_Tracker_ChannelModes trk s_ t4 t5 t6 in Ok (Some s_, r_) end) ;;
      let '(conn_st, t7) := p2 in
      Ok conn_st)
    else
      (t8 <- elem_at line_Args 1 ;;
      Ok conn_st)).

(* Conn.h_332 — client/state_handlers.go *)
Definition go_client_Conn_h_332 (conn_st : option ST) (line_Args : list bytes) : res (option ST) :=
  t1 <- go_client_Line_argslen line_Args 2 ;;
  if negb t1 then
    Ok conn_st
  else
    (t2 <- elem_at line_Args 1 ;;
    p1 <- (match conn_st with None => Panic | Some s_ => let '(s_, r_) := go_state_Tracker_GetChannel trk s_ t2 in Ok (Some s_, r_) end) ;;
    let '(conn_st, t3) := p1 in
    let ch : option go_state_Channel := t3 in
    if go_is_some ch then
      (t4 <- elem_at line_Args 1 ;;
      t5 <- elem_at line_Args 2 ;;
      p2 <- (match conn_st with None => Panic | Some s_ => let '(s_, r_) := go_state_Tracker_Topic trk s_ t4 t5 in Ok (Some s_, r_) end) ;;
      let '(conn_st, t6) := p2 in
      Ok conn_st)
    else
      (t7 <- elem_at line_Args 1 ;;
      Ok conn_st)).

(* Conn.h_671 — client/state_handlers.go *)
Definition go_client_Conn_h_671 (conn_st : option ST) (line_Args : list bytes) : res (option ST) :=
  t1 <- go_client_Line_argslen line_Args 1 ;;
  if negb t1 then
    Ok conn_st
  else
    (t2 <- elem_at line_Args 1 ;;
    p1 <- (match conn_st with None => Panic | Some s_ => let '(s_, r_) := go_state_Tracker_GetNick trk s_ t2 in Ok (Some s_, r_) end) ;;
    let '(conn_st, t3) := p1 in
    let nk : option go_state_Nick := t3 in
    if go_is_some nk then
      (t4 <- go_state_Nick_get_Nick nk ;;
      p2 <- (match conn_st with None => Panic | Some s_ => let '(s_, r_) := go_state_Tracker_NickModes trk s_ t4 [43; 122]%N in Ok (Some s_, r_) end) ;;
      let '(conn_st, t5) := p2 in
      Ok conn_st)
    else
      (t6 <- elem_at line_Args 1 ;;
      Ok conn_st)).

(* Conn.h_JOIN — client/state_handlers.go *)
Definition go_client_Conn_h_JOIN (conn_cfg_Me : option go_state_Nick) (conn_st : option ST) (line_Args : list bytes) (line_Host : bytes) (line_Ident : bytes) (line_Nick : bytes) : res (option go_state_Nick * option ST * list bytes) :=
  let out : list bytes := [] in
  t1 <- elem_at line_Args 0 ;;
  p1 <- (match conn_st with None => Panic | Some s_ => let '(s_, r_) := go_state_Tracker_GetChannel trk s_ t1 in Ok (Some s_, r_) end) ;;
  let '(conn_st, t2) := p1 in
  let ch : option go_state_Channel := t2 in
  p2 <- (match conn_st with None => Panic | Some s_ => let '(s_, r_) := go_state_Tracker_GetNick trk s_ line_Nick in Ok (Some s_, r_) end) ;;
  let '(conn_st, t3) := p2 in
  let nk : option go_state_Nick := t3 in
  let k1 := fun (p : option go_state_Nick * option ST * list bytes) =>
      let '(conn_cfg_Me, conn_st, out) := p in
      p3 <- (
          if negb (go_is_some nk) then
            (p4 <- (match conn_st with None => Panic | Some s_ => let '(s_, r_) := go_state_Tracker_NewNick trk s_ line_Nick in Ok (Some s_, r_) end) ;;
            let '(conn_st, t4) := p4 in
            p5 <- (match conn_st with None => Panic | Some s_ => let '(s_, r_) := go_state_Tracker_NickInfo trk s_ line_Nick line_Ident line_Host [] in Ok (Some s_, r_) end) ;;
            let '(conn_st, t5) := p5 in
            t6 <- go_client_Conn_Who line_Nick ;;
            let out : list bytes := out ++ t6 in
            Ok (conn_st, out))
          else
            Ok (conn_st, out)) ;;
      let '(conn_st, out) := p3 in
      t7 <- elem_at line_Args 0 ;;
      p6 <- (match conn_st with None => Panic | Some s_ => let '(s_, r_) := go_state_Tracker_Associate trk s_ t7 line_Nick in Ok (Some s_, r_) end) ;;
      let '(conn_st, t8) := p6 in
      Ok (conn_cfg_Me, conn_st, out) in
  if negb (go_is_some ch) then
    (p7 <- go_client_Conn_Me conn_cfg_Me conn_st ;;
    let '(conn_cfg_Me, conn_st, t9) := p7 in
    if negb (go_state_Nick_eqb t9 nk) then
      (t10 <- elem_at line_Args 0 ;;
      Ok (conn_cfg_Me, conn_st, out))
    else
      (t11 <- elem_at line_Args 0 ;;
      p8 <- (match conn_st with None => Panic | Some s_ => let '(s_, r_) := go_state_Tracker_NewChannel trk s_ t11 in Ok (Some s_, r_) end) ;;
      let '(conn_st, t12) := p8 in
      t13 <- elem_at line_Args 0 ;;
      t14 <- go_client_Conn_Mode t13 [] ;;
      let out : list bytes := out ++ t14 in
      t15 <- elem_at line_Args 0 ;;
      t16 <- go_client_Conn_Who t15 ;;
      let out : list bytes := out ++ t16 in
      k1 (conn_cfg_Me, conn_st, out)))
  else
    k1 (conn_cfg_Me, conn_st, out).

(* Conn.h_MODE — client/state_handlers.go *)
Definition go_client_Conn_h_MODE (conn_cfg_Me : option go_state_Nick) (conn_st : option ST) (line_Args : list bytes) : res (option go_state_Nick * option ST) :=
  t1 <- go_client_Line_argslen line_Args 1 ;;
  if negb t1 then
    Ok (conn_cfg_Me, conn_st)
  else
    (t2 <- elem_at line_Args 0 ;;
    p1 <- (match conn_st with None => Panic | Some s_ => let '(s_, r_) := go_state_Tracker_GetChannel trk s_ t2 in Ok (Some s_, r_) end) ;;
    let '(conn_st, t3) := p1 in
    let ch : option go_state_Channel := t3 in
    let k1 := fun (p : option go_state_Nick * option ST) =>
        let '(conn_cfg_Me, conn_st) := p in
        Ok (conn_cfg_Me, conn_st) in
    if go_is_some ch then
      (t4 <- elem_at line_Args 0 ;;
      t5 <- elem_at line_Args 1 ;;
      t6 <- elems_from line_Args 2 ;;
      p2 <- (match conn_st with None => Panic | Some s_ => let '(s_, r_) := go_state_Tracker_ChannelModes trk s_ t4 t5 t6 in Ok (Some s_, r_) end) ;;
      let '(conn_st, t7) := p2 in
      k1 (conn_cfg_Me, conn_st))
    else
      (t8 <- elem_at line_Args 0 ;;
      p3 <- (match conn_st with None => Panic | Some s_ => let '(s_, r_) := go_state_Tracker_GetNick trk s_ t8 in Ok (Some s_, r_) end) ;;
      let '(conn_st, t9) := p3 in
      let nk : option go_state_Nick := t9 in
      let k2 := fun (p : option go_state_Nick * option ST) =>
          let '(conn_cfg_Me, conn_st) := p in
          k1 (conn_cfg_Me, conn_st) in
      if go_is_some nk then
        (p4 <- go_client_Conn_Me conn_cfg_Me conn_st ;;
        let '(conn_cfg_Me, conn_st, t10) := p4 in
        if negb (go_state_Nick_eqb t10 nk) then
          (t11 <- elem_at line_Args 1 ;;
          t12 <- elem_at line_Args 0 ;;
          Ok (conn_cfg_Me, conn_st))
        else
          (t13 <- elem_at line_Args 0 ;;
          t14 <- elem_at line_Args 1 ;;
          p5 <- (match conn_st with None => Panic | Some s_ => let '(s_, r_) := go_state_Tracker_NickModes trk s_ t13 t14 in Ok (Some s_, r_) end) ;;
          let '(conn_st, t15) := p5 in
          k2 (conn_cfg_Me, conn_st)))
      else
        k2 (conn_cfg_Me, conn_st))).

(* Conn.h_311 — client/state_handlers.go *)
Definition go_client_Conn_h_311 (conn_cfg_Me : option go_state_Nick) (conn_st : option ST) (line_Args : list bytes) : res (option go_state_Nick * option ST) :=
  t1 <- go_client_Line_argslen line_Args 5 ;;
  if negb t1 then
    Ok (conn_cfg_Me, conn_st)
  else
    (t2 <- elem_at line_Args 1 ;;
    p1 <- (match conn_st with None => Panic | Some s_ => let '(s_, r_) := go_state_Tracker_GetNick trk s_ t2 in Ok (Some s_, r_) end) ;;
    let '(conn_st, t3) := p1 in
    let nk : option go_state_Nick := t3 in
    p2 <- (if go_is_some nk then bind (go_client_Conn_Me conn_cfg_Me conn_st) (fun p_ => let '(conn_cfg_Me, conn_st, t4) := p_ in Ok (conn_cfg_Me, conn_st, (negb (go_state_Nick_eqb t4 nk)))) else Ok (conn_cfg_Me, conn_st, false)) ;;
    let '(conn_cfg_Me, conn_st, t5) := p2 in
    conn_st <- (
        if t5 then
          (t6 <- elem_at line_Args 1 ;;
          t7 <- elem_at line_Args 2 ;;
          t8 <- elem_at line_Args 3 ;;
          t9 <- elem_at line_Args 5 ;;
          p3 <- (match conn_st with None => Panic | Some s_ => let '(s_, r_) := go_state_Tracker_NickInfo trk s_ t6 t7 t8 t9 in Ok (Some s_, r_) end) ;;
          let '(conn_st, t10) := p3 in
          Ok conn_st)
        else
          (t11 <- elem_at line_Args 1 ;;
          Ok conn_st)) ;;
    Ok (conn_cfg_Me, conn_st)).

(* Conn.h_352 — client/state_handlers.go *)
Definition go_client_Conn_h_352 (conn_cfg_Me : option go_state_Nick) (conn_st : option ST) (line_Args : list bytes) : res (option go_state_Nick * option ST) :=
  t1 <- go_client_Line_argslen line_Args 5 ;;
  if negb t1 then
    Ok (conn_cfg_Me, conn_st)
  else
    (t2 <- elem_at line_Args 5 ;;
    p1 <- (match conn_st with None => Panic | Some s_ => let '(s_, r_) := go_state_Tracker_GetNick trk s_ t2 in Ok (Some s_, r_) end) ;;
    let '(conn_st, t3) := p1 in
    let nk : option go_state_Nick := t3 in
    if negb (go_is_some nk) then
      (t4 <- elem_at line_Args 5 ;;
      Ok (conn_cfg_Me, conn_st))
    else
      (p2 <- go_client_Conn_Me conn_cfg_Me conn_st ;;
      let '(conn_cfg_Me, conn_st, t5) := p2 in
      if go_state_Nick_eqb t5 nk then
        Ok (conn_cfg_Me, conn_st)
      else
        (t6 <- elem_at line_Args (llen line_Args - 1) ;;
        let a : list bytes := split2 t6 [32]%N in
        t7 <- go_state_Nick_get_Nick nk ;;
        t8 <- elem_at line_Args 2 ;;
        t9 <- elem_at line_Args 3 ;;
        t10 <- elem_at a 1 ;;
        p3 <- (match conn_st with None => Panic | Some s_ => let '(s_, r_) := go_state_Tracker_NickInfo trk s_ t7 t8 t9 t10 in Ok (Some s_, r_) end) ;;
        let '(conn_st, t11) := p3 in
        t12 <- go_client_Line_argslen line_Args 6 ;;
        if negb t12 then
          Ok (conn_cfg_Me, conn_st)
        else
          (t13 <- elem_at line_Args 6 ;;
          let idx : Z := index t13 [42]%N in
          conn_st <- (
              if negb (idx =? (-1)) then
                (t14 <- go_state_Nick_get_Nick nk ;;
                p4 <- (match conn_st with None => Panic | Some s_ => let '(s_, r_) := go_state_Tracker_NickModes trk s_ t14 [43; 111]%N in Ok (Some s_, r_) end) ;;
                let '(conn_st, t15) := p4 in
                Ok conn_st)
              else
                Ok conn_st) ;;
          t16 <- elem_at line_Args 6 ;;
          let idx_1 : Z := index t16 [66]%N in
          conn_st <- (
              if negb (idx_1 =? (-1)) then
                (t17 <- go_state_Nick_get_Nick nk ;;
                p5 <- (match conn_st with None => Panic | Some s_ => let '(s_, r_) := go_state_Tracker_NickModes trk s_ t17 [43; 66]%N in Ok (Some s_, r_) end) ;;
                let '(conn_st, t18) := p5 in
                Ok conn_st)
              else
                Ok conn_st) ;;
          t19 <- elem_at line_Args 6 ;;
          let idx_2 : Z := index t19 [72]%N in
          conn_st <- (
              if negb (idx_2 =? (-1)) then
                (t20 <- go_state_Nick_get_Nick nk ;;
                p6 <- (match conn_st with None => Panic | Some s_ => let '(s_, r_) := go_state_Tracker_NickModes trk s_ t20 [43; 105]%N in Ok (Some s_, r_) end) ;;
                let '(conn_st, t21) := p6 in
                Ok conn_st)
              else
                Ok conn_st) ;;
          Ok (conn_cfg_Me, conn_st))))).

(* Conn.h_353 — client/state_handlers.go *)
Definition go_client_Conn_h_353 (conn_st : option ST) (line_Args : list bytes) : res (option ST) :=
  t1 <- go_client_Line_argslen line_Args 2 ;;
  if negb t1 then
    Ok conn_st
  else
    (t2 <- elem_at line_Args 2 ;;
    p1 <- (match conn_st with None => Panic | Some s_ => let '(s_, r_) := go_state_Tracker_GetChannel trk s_ t2 in Ok (Some s_, r_) end) ;;
    let '(conn_st, t3) := p1 in
    let ch : option go_state_Channel := t3 in
    let k1 := fun (conn_st : option ST) =>
        Ok conn_st in
    if go_is_some ch then
      (t4 <- elem_at line_Args (llen line_Args - 1) ;;
      let nicks : list bytes := split_byte t4 32%N in
      let fix loop1 (l : list bytes) (conn_st : option ST) {struct l} : res (option ST) :=
          match l with
          | [] => Ok conn_st
          | nick :: l' =>
              if beq nick [] then
                loop1 l' conn_st
              else
                (c <- byte_at nick 0 ;;
                p2 <- (
                    if ((((c =? 126%N)%N || (c =? 38%N)%N) || (c =? 64%N)%N) || (c =? 37%N)%N) || (c =? 43%N)%N then
                      (nick <- slice_from nick 1 ;;
                      p3 <- (match conn_st with None => Panic | Some s_ => let '(s_, r_) := go_state_Tracker_GetNick trk s_ nick in Ok (Some s_, r_) end) ;;
                      let '(conn_st, t7) := p3 in
                      conn_st <- (
                          if negb (go_is_some t7) then
                            (p4 <- (match conn_st with None => Panic | Some s_ => let '(s_, r_) := go_state_Tracker_NewNick trk s_ nick in Ok (Some s_, r_) end) ;;
                            let '(conn_st, t8) := p4 in
                            Ok conn_st)
                          else
                            Ok conn_st) ;;
                      t9 <- go_state_Channel_get_Name ch ;;
                      p5 <- (match conn_st with None => Panic | Some s_ => let '(s_, r_) := go_state_Tracker_IsOn trk s_ t9 nick in Ok (Some s_, r_) end) ;;
                      let '(conn_st, t10) := p5 in
                      let '(_, ok) := t10 in
                      conn_st <- (
                          if negb ok then
                            (t11 <- go_state_Channel_get_Name ch ;;
                            p6 <- (match conn_st with None => Panic | Some s_ => let '(s_, r_) := go_state_Tracker_Associate trk s_ t11 nick in Ok (Some s_, r_) end) ;;
                            let '(conn_st, t12) := p6 in
                            Ok conn_st)
                          else
                            Ok conn_st) ;;
                      conn_st <- (
                          if (c =? 126%N)%N then
                            (t13 <- go_state_Channel_get_Name ch ;;
                            p7 <- (match conn_st with None => Panic | Some s_ => let '(s_, r_) := go_state_Tracker_ChannelModes trk s_ t13 [43; 113]%N [nick] in Ok (Some s_, r_) end) ;;
                            let '(conn_st, t14) := p7 in
                            Ok conn_st)
                          else
                            (if (c =? 38%N)%N then
                              (t15 <- go_state_Channel_get_Name ch ;;
                              p8 <- (match conn_st with None => Panic | Some s_ => let '(s_, r_) := go_state_Tracker_ChannelModes trk s_ t15 [43; 97]%N [nick] in Ok (Some s_, r_) end) ;;
                              let '(conn_st, t16) := p8 in
                              Ok conn_st)
                            else
                              (if (c =? 64%N)%N then
                                (t17 <- go_state_Channel_get_Name ch ;;
                                p9 <- (match conn_st with None => Panic | Some s_ => let '(s_, r_) := go_state_Tracker_ChannelModes trk s_ t17 [43; 111]%N [nick] in Ok (Some s_, r_) end) ;;
                                let '(conn_st, t18) := p9 in
                                Ok conn_st)
                              else
                                (if (c =? 37%N)%N then
                                  (t19 <- go_state_Channel_get_Name ch ;;
                                  p10 <- (match conn_st with None => Panic | Some s_ => let '(s_, r_) := go_state_Tracker_ChannelModes trk s_ t19 [43; 104]%N [nick] in Ok (Some s_, r_) end) ;;
                                  let '(conn_st, t20) := p10 in
                                  Ok conn_st)
                                else
                                  (if (c =? 43%N)%N then
                                    (t21 <- go_state_Channel_get_Name ch ;;
                                    p11 <- (match conn_st with None => Panic | Some s_ => let '(s_, r_) := go_state_Tracker_ChannelModes trk s_ t21 [43; 118]%N [nick] in Ok (Some s_, r_) end) ;;
                                    let '(conn_st, t22) := p11 in
                                    Ok conn_st)
                                  else
                                    Ok conn_st))))) ;;
                      Ok (nick, conn_st))
                    else
                      (p12 <- (match conn_st with None => Panic | Some s_ => let '(s_, r_) := go_state_Tracker_GetNick trk s_ nick in Ok (Some s_, r_) end) ;;
                      let '(conn_st, t23) := p12 in
                      conn_st <- (
                          if negb (go_is_some t23) then
                            (p13 <- (match conn_st with None => Panic | Some s_ => let '(s_, r_) := go_state_Tracker_NewNick trk s_ nick in Ok (Some s_, r_) end) ;;
                            let '(conn_st, t24) := p13 in
                            Ok conn_st)
                          else
                            Ok conn_st) ;;
                      t25 <- go_state_Channel_get_Name ch ;;
                      p14 <- (match conn_st with None => Panic | Some s_ => let '(s_, r_) := go_state_Tracker_IsOn trk s_ t25 nick in Ok (Some s_, r_) end) ;;
                      let '(conn_st, t26) := p14 in
                      let '(_, ok_1) := t26 in
                      conn_st <- (
                          if negb ok_1 then
                            (t27 <- go_state_Channel_get_Name ch ;;
                            p15 <- (match conn_st with None => Panic | Some s_ => let '(s_, r_) := go_state_Tracker_Associate trk s_ t27 nick in Ok (Some s_, r_) end) ;;
                            let '(conn_st, t28) := p15 in
                            Ok conn_st)
                          else
                            Ok conn_st) ;;
                      conn_st <- (
                          if (c =? 126%N)%N then
                            (t29 <- go_state_Channel_get_Name ch ;;
                            p16 <- (match conn_st with None => Panic | Some s_ => let '(s_, r_) := go_state_Tracker_ChannelModes trk s_ t29 [43; 113]%N [nick] in Ok (Some s_, r_) end) ;;
                            let '(conn_st, t30) := p16 in
                            Ok conn_st)
                          else
                            (if (c =? 38%N)%N then
                              (t31 <- go_state_Channel_get_Name ch ;;
                              p17 <- (match conn_st with None => Panic | Some s_ => let '(s_, r_) := go_state_Tracker_ChannelModes trk s_ t31 [43; 97]%N [nick] in Ok (Some s_, r_) end) ;;
                              let '(conn_st, t32) := p17 in
                              Ok conn_st)
                            else
                              (if (c =? 64%N)%N then
                                (t33 <- go_state_Channel_get_Name ch ;;
                                p18 <- (match conn_st with None => Panic | Some s_ => let '(s_, r_) := go_state_Tracker_ChannelModes trk s_ t33 [43; 111]%N [nick] in Ok (Some s_, r_) end) ;;
                                let '(conn_st, t34) := p18 in
                                Ok conn_st)
                              else
                                (if (c =? 37%N)%N then
                                  (t35 <- go_state_Channel_get_Name ch ;;
                                  p19 <- (match conn_st with None => Panic | Some s_ => let '(s_, r_) := go_state_Tracker_ChannelModes trk s_ t35 [43; 104]%N [nick] in Ok (Some s_, r_) end) ;;
                                  let '(conn_st, t36) := p19 in
                                  Ok conn_st)
                                else
                                  (if (c =? 43%N)%N then
                                    (t37 <- go_state_Channel_get_Name ch ;;
                                    p20 <- (match conn_st with None => Panic | Some s_ => let '(s_, r_) := go_state_Tracker_ChannelModes trk s_ t37 [43; 118]%N [nick] in Ok (Some s_, r_) end) ;;
                                    let '(conn_st, t38) := p20 in
                                    Ok conn_st)
                                  else
                                    Ok conn_st))))) ;;
                      Ok (nick, conn_st))) ;;
                let '(nick, conn_st) := p2 in
                loop1 l' conn_st)
          end in
      conn_st <- loop1 nicks conn_st ;;
      k1 conn_st)
    else
      (t39 <- elem_at line_Args 2 ;;
      k1 conn_st)).

(* type NickMode struct { Bot, Invisible, Oper, WallOps, HiddenHost, SSL }: the fields Bot, Invisible, Oper, WallOps, HiddenHost, SSL; a *NickMode is an option (None = nil) *)
Definition go_state_NickMode : Type := (bool * bool * bool * bool * bool * bool)%type.
Definition go_state_NickMode_get_Bot (p : option go_state_NickMode) : res bool :=
  match p with Some (x1, x2, x3, x4, x5, x6) => Ok x1 | None => Panic end.
Definition go_state_NickMode_set_Bot (p : option go_state_NickMode) (v : bool) : res (option go_state_NickMode) :=
  match p with Some (x1, x2, x3, x4, x5, x6) => Ok (Some (v, x2, x3, x4, x5, x6)) | None => Panic end.
Definition go_state_NickMode_get_Invisible (p : option go_state_NickMode) : res bool :=
  match p with Some (x1, x2, x3, x4, x5, x6) => Ok x2 | None => Panic end.
Definition go_state_NickMode_set_Invisible (p : option go_state_NickMode) (v : bool) : res (option go_state_NickMode) :=
  match p with Some (x1, x2, x3, x4, x5, x6) => Ok (Some (x1, v, x3, x4, x5, x6)) | None => Panic end.
Definition go_state_NickMode_get_Oper (p : option go_state_NickMode) : res bool :=
  match p with Some (x1, x2, x3, x4, x5, x6) => Ok x3 | None => Panic end.
Definition go_state_NickMode_set_Oper (p : option go_state_NickMode) (v : bool) : res (option go_state_NickMode) :=
  match p with Some (x1, x2, x3, x4, x5, x6) => Ok (Some (x1, x2, v, x4, x5, x6)) | None => Panic end.
Definition go_state_NickMode_get_WallOps (p : option go_state_NickMode) : res bool :=
  match p with Some (x1, x2, x3, x4, x5, x6) => Ok x4 | None => Panic end.
Definition go_state_NickMode_set_WallOps (p : option go_state_NickMode) (v : bool) : res (option go_state_NickMode) :=
  match p with Some (x1, x2, x3, x4, x5, x6) => Ok (Some (x1, x2, x3, v, x5, x6)) | None => Panic end.
Definition go_state_NickMode_get_HiddenHost (p : option go_state_NickMode) : res bool :=
  match p with Some (x1, x2, x3, x4, x5, x6) => Ok x5 | None => Panic end.
Definition go_state_NickMode_set_HiddenHost (p : option go_state_NickMode) (v : bool) : res (option go_state_NickMode) :=
  match p with Some (x1, x2, x3, x4, x5, x6) => Ok (Some (x1, x2, x3, x4, v, x6)) | None => Panic end.
Definition go_state_NickMode_get_SSL (p : option go_state_NickMode) : res bool :=
  match p with Some (x1, x2, x3, x4, x5, x6) => Ok x6 | None => Panic end.
Definition go_state_NickMode_set_SSL (p : option go_state_NickMode) (v : bool) : res (option go_state_NickMode) :=
  match p with Some (x1, x2, x3, x4, x5, x6) => Ok (Some (x1, x2, x3, x4, x5, v)) | None => Panic end.
Definition go_state_NickMode_eqb (p q : option go_state_NickMode) : bool :=
  match p, q with
  | Some (x1, x2, x3, x4, x5, x6), Some (y1, y2, y3, y4, y5, y6) => Bool.eqb x1 y1 && Bool.eqb x2 y2 && Bool.eqb x3 y3 && Bool.eqb x4 y4 && Bool.eqb x5 y5 && Bool.eqb x6 y6
  | None, None => true
  | _, _ => false
  end.

(* nick.parseModes — state/nick.go *)
Definition go_state_nick_parseModes (nk_modes : option go_state_NickMode) (modes : bytes) : res (option go_state_NickMode) :=
  let modeop : bool := false in
  let i : Z := 0 in
  let fix loop1 (fuel : nat) (modeop : bool) (i : Z) (nk_modes : option go_state_NickMode) {struct fuel} : res (bool * Z * option go_state_NickMode) :=
      if i <? len modes then
        (match fuel with
        | O => Panic
        | S fuel' =>
            m <- byte_at modes i ;;
            p1 <- (
                if (m =? 43%N)%N then
                  (let modeop : bool := true in
                  Ok (modeop, nk_modes))
                else
                  (p2 <- (
                      if (m =? 45%N)%N then
                        (let modeop : bool := false in
                        Ok (modeop, nk_modes))
                      else
                        (nk_modes <- (
                            if (m =? 66%N)%N then
                              go_state_NickMode_set_Bot nk_modes modeop
                            else
                              (if (m =? 105%N)%N then
                                go_state_NickMode_set_Invisible nk_modes modeop
                              else
                                (if (m =? 111%N)%N then
                                  go_state_NickMode_set_Oper nk_modes modeop
                                else
                                  (if (m =? 119%N)%N then
                                    go_state_NickMode_set_WallOps nk_modes modeop
                                  else
                                    (if (m =? 120%N)%N then
                                      go_state_NickMode_set_HiddenHost nk_modes modeop
                                    else
                                      (if (m =? 122%N)%N then
                                        go_state_NickMode_set_SSL nk_modes modeop
                                      else
                                        Ok nk_modes)))))) ;;
                        Ok (modeop, nk_modes))) ;;
                  let '(modeop, nk_modes) := p2 in
                  Ok (modeop, nk_modes))) ;;
            let '(modeop, nk_modes) := p1 in
            let i : Z := i + 1 in
            loop1 fuel' modeop i nk_modes
        end)
      else
        Ok (modeop, i, nk_modes) in
  p3 <- loop1 (S (length modes)) modeop i nk_modes ;;
  let '(modeop, i, nk_modes) := p3 in
  Ok nk_modes.

(* type ChanMode struct { Private, Secret, ProtectedTopic, NoExternalMsg, Moderated, InviteOnly, OperOnly, SSLOnly, Registered, AllSSL, Key, Limit }: the fields Private, Secret, ProtectedTopic, NoExternalMsg, Moderated, InviteOnly, OperOnly, SSLOnly, Registered, AllSSL, Key, Limit; a *ChanMode is an option (None = nil) *)
Definition go_state_ChanMode : Type := (bool * bool * bool * bool * bool * bool * bool * bool * bool * bool * bytes * Z)%type.
Definition go_state_ChanMode_get_Private (p : option go_state_ChanMode) : res bool :=
  match p with Some (x1, x2, x3, x4, x5, x6, x7, x8, x9, x10, x11, x12) => Ok x1 | None => Panic end.
Definition go_state_ChanMode_set_Private (p : option go_state_ChanMode) (v : bool) : res (option go_state_ChanMode) :=
  match p with Some (x1, x2, x3, x4, x5, x6, x7, x8, x9, x10, x11, x12) => Ok (Some (v, x2, x3, x4, x5, x6, x7, x8, x9, x10, x11, x12)) | None => Panic end.
Definition go_state_ChanMode_get_Secret (p : option go_state_ChanMode) : res bool :=
  match p with Some (x1, x2, x3, x4, x5, x6, x7, x8, x9, x10, x11, x12) => Ok x2 | None => Panic end.
Definition go_state_ChanMode_set_Secret (p : option go_state_ChanMode) (v : bool) : res (option go_state_ChanMode) :=
  match p with Some (x1, x2, x3, x4, x5, x6, x7, x8, x9, x10, x11, x12) => Ok (Some (x1, v, x3, x4, x5, x6, x7, x8, x9, x10, x11, x12)) | None => Panic end.
Definition go_state_ChanMode_get_ProtectedTopic (p : option go_state_ChanMode) : res bool :=
  match p with Some (x1, x2, x3, x4, x5, x6, x7, x8, x9, x10, x11, x12) => Ok x3 | None => Panic end.
Definition go_state_ChanMode_set_ProtectedTopic (p : option go_state_ChanMode) (v : bool) : res (option go_state_ChanMode) :=
  match p with Some (x1, x2, x3, x4, x5, x6, x7, x8, x9, x10, x11, x12) => Ok (Some (x1, x2, v, x4, x5, x6, x7, x8, x9, x10, x11, x12)) | None => Panic end.
Definition go_state_ChanMode_get_NoExternalMsg (p : option go_state_ChanMode) : res bool :=
  match p with Some (x1, x2, x3, x4, x5, x6, x7, x8, x9, x10, x11, x12) => Ok x4 | None => Panic end.
Definition go_state_ChanMode_set_NoExternalMsg (p : option go_state_ChanMode) (v : bool) : res (option go_state_ChanMode) :=
  match p with Some (x1, x2, x3, x4, x5, x6, x7, x8, x9, x10, x11, x12) => Ok (Some (x1, x2, x3, v, x5, x6, x7, x8, x9, x10, x11, x12)) | None => Panic end.
Definition go_state_ChanMode_get_Moderated (p : option go_state_ChanMode) : res bool :=
  match p with Some (x1, x2, x3, x4, x5, x6, x7, x8, x9, x10, x11, x12) => Ok x5 | None => Panic end.
Definition go_state_ChanMode_set_Moderated (p : option go_state_ChanMode) (v : bool) : res (option go_state_ChanMode) :=
  match p with Some (x1, x2, x3, x4, x5, x6, x7, x8, x9, x10, x11, x12) => Ok (Some (x1, x2, x3, x4, v, x6, x7, x8, x9, x10, x11, x12)) | None => Panic end.
Definition go_state_ChanMode_get_InviteOnly (p : option go_state_ChanMode) : res bool :=
  match p with Some (x1, x2, x3, x4, x5, x6, x7, x8, x9, x10, x11, x12) => Ok x6 | None => Panic end.
Definition go_state_ChanMode_set_InviteOnly (p : option go_state_ChanMode) (v : bool) : res (option go_state_ChanMode) :=
  match p with Some (x1, x2, x3, x4, x5, x6, x7, x8, x9, x10, x11, x12) => Ok (Some (x1, x2, x3, x4, x5, v, x7, x8, x9, x10, x11, x12)) | None => Panic end.
Definition go_state_ChanMode_get_OperOnly (p : option go_state_ChanMode) : res bool :=
  match p with Some (x1, x2, x3, x4, x5, x6, x7, x8, x9, x10, x11, x12) => Ok x7 | None => Panic end.
Definition go_state_ChanMode_set_OperOnly (p : option go_state_ChanMode) (v : bool) : res (option go_state_ChanMode) :=
  match p with Some (x1, x2, x3, x4, x5, x6, x7, x8, x9, x10, x11, x12) => Ok (Some (x1, x2, x3, x4, x5, x6, v, x8, x9, x10, x11, x12)) | None => Panic end.
Definition go_state_ChanMode_get_SSLOnly (p : option go_state_ChanMode) : res bool :=
  match p with Some (x1, x2, x3, x4, x5, x6, x7, x8, x9, x10, x11, x12) => Ok x8 | None => Panic end.
Definition go_state_ChanMode_set_SSLOnly (p : option go_state_ChanMode) (v : bool) : res (option go_state_ChanMode) :=
  match p with Some (x1, x2, x3, x4, x5, x6, x7, x8, x9, x10, x11, x12) => Ok (Some (x1, x2, x3, x4, x5, x6, x7, v, x9, x10, x11, x12)) | None => Panic end.
Definition go_state_ChanMode_get_Registered (p : option go_state_ChanMode) : res bool :=
  match p with Some (x1, x2, x3, x4, x5, x6, x7, x8, x9, x10, x11, x12) => Ok x9 | None => Panic end.
Definition go_state_ChanMode_set_Registered (p : option go_state_ChanMode) (v : bool) : res (option go_state_ChanMode) :=
  match p with Some (x1, x2, x3, x4, x5, x6, x7, x8, x9, x10, x11, x12) => Ok (Some (x1, x2, x3, x4, x5, x6, x7, x8, v, x10, x11, x12)) | None => Panic end.
Definition go_state_ChanMode_get_AllSSL (p : option go_state_ChanMode) : res bool :=
  match p with Some (x1, x2, x3, x4, x5, x6, x7, x8, x9, x10, x11, x12) => Ok x10 | None => Panic end.
Definition go_state_ChanMode_set_AllSSL (p : option go_state_ChanMode) (v : bool) : res (option go_state_ChanMode) :=
  match p with Some (x1, x2, x3, x4, x5, x6, x7, x8, x9, x10, x11, x12) => Ok (Some (x1, x2, x3, x4, x5, x6, x7, x8, x9, v, x11, x12)) | None => Panic end.
Definition go_state_ChanMode_get_Key (p : option go_state_ChanMode) : res bytes :=
  match p with Some (x1, x2, x3, x4, x5, x6, x7, x8, x9, x10, x11, x12) => Ok x11 | None => Panic end.
Definition go_state_ChanMode_set_Key (p : option go_state_ChanMode) (v : bytes) : res (option go_state_ChanMode) :=
  match p with Some (x1, x2, x3, x4, x5, x6, x7, x8, x9, x10, x11, x12) => Ok (Some (x1, x2, x3, x4, x5, x6, x7, x8, x9, x10, v, x12)) | None => Panic end.
Definition go_state_ChanMode_get_Limit (p : option go_state_ChanMode) : res Z :=
  match p with Some (x1, x2, x3, x4, x5, x6, x7, x8, x9, x10, x11, x12) => Ok x12 | None => Panic end.
Definition go_state_ChanMode_set_Limit (p : option go_state_ChanMode) (v : Z) : res (option go_state_ChanMode) :=
  match p with Some (x1, x2, x3, x4, x5, x6, x7, x8, x9, x10, x11, x12) => Ok (Some (x1, x2, x3, x4, x5, x6, x7, x8, x9, x10, x11, v)) | None => Panic end.
Definition go_state_ChanMode_eqb (p q : option go_state_ChanMode) : bool :=
  match p, q with
  | Some (x1, x2, x3, x4, x5, x6, x7, x8, x9, x10, x11, x12), Some (y1, y2, y3, y4, y5, y6, y7, y8, y9, y10, y11, y12) => Bool.eqb x1 y1 && Bool.eqb x2 y2 && Bool.eqb x3 y3 && Bool.eqb x4 y4 && Bool.eqb x5 y5 && Bool.eqb x6 y6 && Bool.eqb x7 y7 && Bool.eqb x8 y8 && Bool.eqb x9 y9 && Bool.eqb x10 y10 && beq x11 y11 && (x12 =? y12)
  | None, None => true
  | _, _ => false
  end.

(* *nick (package state, not modelled): an abstract reference; nil = None *)
Context {go_state_nick_ref : Type}.

(* a Go map to pointers, as an abstract store: m[k] (nil when k is missing) *)
Context {go_map_string_nick : Type}.
Variable go_map_string_nick_get : go_map_string_nick -> bytes -> option go_state_nick_ref.

(* a Go map to pointers, as an abstract store: m[k] (nil when k is missing), and the write through that pointer *)
Context {go_map_nick_ChanPrivs : Type}.
Variable go_map_nick_ChanPrivs_get : go_map_nick_ChanPrivs -> option go_state_nick_ref -> option go_state_ChanPrivs.
Variable go_map_nick_ChanPrivs_set : go_map_nick_ChanPrivs -> option go_state_nick_ref -> go_state_ChanPrivs -> go_map_nick_ChanPrivs.

(* strconv.Atoi: (value, err) — a variable, as every stdlib function that is not transliterated *)
Variable go_strconv_Atoi : bytes -> Z * bool.

(* channel.parseModes — state/channel.go *)
Definition go_state_channel_parseModes (ch_lookup : go_map_string_nick) (ch_modes : option go_state_ChanMode) (ch_name : bytes) (ch_nicks : go_map_nick_ChanPrivs) (modes : bytes) (modeargs : list bytes) : res (option go_state_ChanMode * go_map_nick_ChanPrivs) :=
  let modeop : bool := false in
  let modestr : bytes := [] in
  let i : Z := 0 in
  let fix loop1 (fuel : nat) (modeargs : list bytes) (modeop : bool) (modestr : bytes) (i : Z) (ch_modes : option go_state_ChanMode) (ch_nicks : go_map_nick_ChanPrivs) {struct fuel} : res (list bytes * bool * bytes * Z * option go_state_ChanMode * go_map_nick_ChanPrivs) :=
      if i <? len modes then
        (match fuel with
        | O => Panic
        | S fuel' =>
            m <- byte_at modes i ;;
            p1 <- (
                if (m =? 43%N)%N then
                  (let modeop : bool := true in
                  let modestr : bytes := go_string_of_byte m in
                  Ok (modeargs, modeop, modestr, ch_modes, ch_nicks))
                else
                  (p2 <- (
                      if (m =? 45%N)%N then
                        (let modeop : bool := false in
                        let modestr : bytes := go_string_of_byte m in
                        Ok (modeargs, modeop, modestr, ch_modes, ch_nicks))
                      else
                        (p3 <- (
                            if (m =? 105%N)%N then
                              (ch_modes <- go_state_ChanMode_set_InviteOnly ch_modes modeop ;;
                              Ok (modeargs, ch_modes, ch_nicks))
                            else
                              (p4 <- (
                                  if (m =? 109%N)%N then
                                    (ch_modes <- go_state_ChanMode_set_Moderated ch_modes modeop ;;
                                    Ok (modeargs, ch_modes, ch_nicks))
                                  else
                                    (p5 <- (
                                        if (m =? 110%N)%N then
                                          (ch_modes <- go_state_ChanMode_set_NoExternalMsg ch_modes modeop ;;
                                          Ok (modeargs, ch_modes, ch_nicks))
                                        else
                                          (p6 <- (
                                              if (m =? 112%N)%N then
                                                (ch_modes <- go_state_ChanMode_set_Private ch_modes modeop ;;
                                                Ok (modeargs, ch_modes, ch_nicks))
                                              else
                                                (p7 <- (
                                                    if (m =? 114%N)%N then
                                                      (ch_modes <- go_state_ChanMode_set_Registered ch_modes modeop ;;
                                                      Ok (modeargs, ch_modes, ch_nicks))
                                                    else
                                                      (p8 <- (
                                                          if (m =? 115%N)%N then
                                                            (ch_modes <- go_state_ChanMode_set_Secret ch_modes modeop ;;
                                                            Ok (modeargs, ch_modes, ch_nicks))
                                                          else
                                                            (p9 <- (
                                                                if (m =? 116%N)%N then
                                                                  (ch_modes <- go_state_ChanMode_set_ProtectedTopic ch_modes modeop ;;
                                                                  Ok (modeargs, ch_modes, ch_nicks))
                                                                else
                                                                  (p10 <- (
                                                                      if (m =? 122%N)%N then
                                                                        (ch_modes <- go_state_ChanMode_set_SSLOnly ch_modes modeop ;;
                                                                        Ok (modeargs, ch_modes, ch_nicks))
                                                                      else
                                                                        (p11 <- (
                                                                            if (m =? 90%N)%N then
                                                                              (ch_modes <- go_state_ChanMode_set_AllSSL ch_modes modeop ;;
                                                                              Ok (modeargs, ch_modes, ch_nicks))
                                                                            else
                                                                              (p12 <- (
                                                                                  if (m =? 79%N)%N then
                                                                                    (ch_modes <- go_state_ChanMode_set_OperOnly ch_modes modeop ;;
                                                                                    Ok (modeargs, ch_modes, ch_nicks))
                                                                                  else
                                                                                    (p13 <- (
                                                                                        if (m =? 107%N)%N then
                                                                                          (p14 <- (
                                                                                              if modeop && negb (llen modeargs =? 0) then
                                                                                                (t2 <- elem_at modeargs 0 ;;
                                                                                                t3 <- Ok t2 ;;
                                                                                                t4 <- elems_from modeargs 1 ;;
                                                                                                t5 <- Ok t4 ;;
                                                                                                ch_modes <- go_state_ChanMode_set_Key ch_modes t3 ;;
                                                                                                let modeargs : list bytes := t5 in
                                                                                                Ok (modeargs, ch_modes))
                                                                                              else
                                                                                                (ch_modes <- (
                                                                                                    if negb modeop then
                                                                                                      go_state_ChanMode_set_Key ch_modes []
                                                                                                    else
                                                                                                      Ok ch_modes) ;;
                                                                                                Ok (modeargs, ch_modes))) ;;
                                                                                          let '(modeargs, ch_modes) := p14 in
                                                                                          Ok (modeargs, ch_modes, ch_nicks))
                                                                                        else
                                                                                          (p15 <- (
                                                                                              if (m =? 108%N)%N then
                                                                                                (p16 <- (
                                                                                                    if modeop && negb (llen modeargs =? 0) then
                                                                                                      (t6 <- elem_at modeargs 0 ;;
                                                                                                      p17 <- Ok (go_strconv_Atoi t6) ;;
                                                                                                      let '(t7, t8) := p17 in
                                                                                                      ch_modes <- go_state_ChanMode_set_Limit ch_modes t7 ;;
                                                                                                      modeargs <- elems_from modeargs 1 ;;
                                                                                                      Ok (modeargs, ch_modes))
                                                                                                    else
                                                                                                      (ch_modes <- (
                                                                                                          if negb modeop then
                                                                                                            go_state_ChanMode_set_Limit ch_modes 0
                                                                                                          else
                                                                                                            Ok ch_modes) ;;
                                                                                                      Ok (modeargs, ch_modes))) ;;
                                                                                                let '(modeargs, ch_modes) := p16 in
                                                                                                Ok (modeargs, ch_modes, ch_nicks))
                                                                                              else
                                                                                                (p18 <- (
                                                                                                    if ((m =? 98%N)%N || (m =? 101%N)%N) || (m =? 73%N)%N then
                                                                                                      (modeargs <- (
                                                                                                          if negb (llen modeargs =? 0) then
                                                                                                            elems_from modeargs 1
                                                                                                          else
                                                                                                            Ok modeargs) ;;
                                                                                                      Ok (modeargs, ch_nicks))
                                                                                                    else
                                                                                                      (p19 <- (
                                                                                                          if ((((m =? 113%N)%N || (m =? 97%N)%N) || (m =? 111%N)%N) || (m =? 104%N)%N) || (m =? 118%N)%N then
                                                                                                            (p20 <- (
                                                                                                                if negb (llen modeargs =? 0) then
                                                                                                                  (t11 <- elem_at modeargs 0 ;;
                                                                                                                  let t12 : option go_state_nick_ref := go_map_string_nick_get ch_lookup t11 in
                                                                                                                  let '(nk, ok) := (t12, go_is_some t12) in
                                                                                                                  p21 <- (
                                                                                                                      if ok then
                                                                                                                        (let cp : option go_state_ChanPrivs := go_map_nick_ChanPrivs_get ch_nicks nk in
                                                                                                                        p22 <- (
                                                                                                                            if (m =? 113%N)%N then
                                                                                                                              (cp <- go_state_ChanPrivs_set_Owner cp modeop ;;
                                                                                                                              ch_nicks <- (match cp with Some v_ => Ok (go_map_nick_ChanPrivs_set ch_nicks nk v_) | None => Panic end) ;;
                                                                                                                              Ok (cp, ch_nicks))
                                                                                                                            else
                                                                                                                              (p23 <- (
                                                                                                                                  if (m =? 97%N)%N then
                                                                                                                                    (cp <- go_state_ChanPrivs_set_Admin cp modeop ;;
                                                                                                                                    ch_nicks <- (match cp with Some v_ => Ok (go_map_nick_ChanPrivs_set ch_nicks nk v_) | None => Panic end) ;;
                                                                                                                                    Ok (cp, ch_nicks))
                                                                                                                                  else
                                                                                                                                    (p24 <- (
                                                                                                                                        if (m =? 111%N)%N then
                                                                                                                                          (cp <- go_state_ChanPrivs_set_Op cp modeop ;;
                                                                                                                                          ch_nicks <- (match cp with Some v_ => Ok (go_map_nick_ChanPrivs_set ch_nicks nk v_) | None => Panic end) ;;
                                                                                                                                          Ok (cp, ch_nicks))
                                                                                                                                        else
                                                                                                                                          (p25 <- (
                                                                                                                                              if (m =? 104%N)%N then
                                                                                                                                                (cp <- go_state_ChanPrivs_set_HalfOp cp modeop ;;
                                                                                                                                                ch_nicks <- (match cp with Some v_ => Ok (go_map_nick_ChanPrivs_set ch_nicks nk v_) | None => Panic end) ;;
                                                                                                                                                Ok (cp, ch_nicks))
                                                                                                                                              else
                                                                                                                                                (p26 <- (
                                                                                                                                                    if (m =? 118%N)%N then
                                                                                                                                                      (cp <- go_state_ChanPrivs_set_Voice cp modeop ;;
                                                                                                                                                      ch_nicks <- (match cp with Some v_ => Ok (go_map_nick_ChanPrivs_set ch_nicks nk v_) | None => Panic end) ;;
                                                                                                                                                      Ok (cp, ch_nicks))
                                                                                                                                                    else
                                                                                                                                                      Ok (cp, ch_nicks)) ;;
                                                                                                                                                let '(cp, ch_nicks) := p26 in
                                                                                                                                                Ok (cp, ch_nicks))) ;;
                                                                                                                                          let '(cp, ch_nicks) := p25 in
                                                                                                                                          Ok (cp, ch_nicks))) ;;
                                                                                                                                    let '(cp, ch_nicks) := p24 in
                                                                                                                                    Ok (cp, ch_nicks))) ;;
                                                                                                                              let '(cp, ch_nicks) := p23 in
                                                                                                                              Ok (cp, ch_nicks))) ;;
                                                                                                                        let '(cp, ch_nicks) := p22 in
                                                                                                                        modeargs <- elems_from modeargs 1 ;;
                                                                                                                        Ok (modeargs, ch_nicks))
                                                                                                                      else
                                                                                                                        (t14 <- elem_at modeargs 0 ;;
                                                                                                                        Ok (modeargs, ch_nicks))) ;;
                                                                                                                  let '(modeargs, ch_nicks) := p21 in
                                                                                                                  Ok (modeargs, ch_nicks))
                                                                                                                else
                                                                                                                  Ok (modeargs, ch_nicks)) ;;
                                                                                                            let '(modeargs, ch_nicks) := p20 in
                                                                                                            Ok (modeargs, ch_nicks))
                                                                                                          else
                                                                                                            Ok (modeargs, ch_nicks)) ;;
                                                                                                      let '(modeargs, ch_nicks) := p19 in
                                                                                                      Ok (modeargs, ch_nicks))) ;;
                                                                                                let '(modeargs, ch_nicks) := p18 in
                                                                                                Ok (modeargs, ch_modes, ch_nicks))) ;;
                                                                                          let '(modeargs, ch_modes, ch_nicks) := p15 in
                                                                                          Ok (modeargs, ch_modes, ch_nicks))) ;;
                                                                                    let '(modeargs, ch_modes, ch_nicks) := p13 in
                                                                                    Ok (modeargs, ch_modes, ch_nicks))) ;;
                                                                              let '(modeargs, ch_modes, ch_nicks) := p12 in
                                                                              Ok (modeargs, ch_modes, ch_nicks))) ;;
                                                                        let '(modeargs, ch_modes, ch_nicks) := p11 in
                                                                        Ok (modeargs, ch_modes, ch_nicks))) ;;
                                                                  let '(modeargs, ch_modes, ch_nicks) := p10 in
                                                                  Ok (modeargs, ch_modes, ch_nicks))) ;;
                                                            let '(modeargs, ch_modes, ch_nicks) := p9 in
                                                            Ok (modeargs, ch_modes, ch_nicks))) ;;
                                                      let '(modeargs, ch_modes, ch_nicks) := p8 in
                                                      Ok (modeargs, ch_modes, ch_nicks))) ;;
                                                let '(modeargs, ch_modes, ch_nicks) := p7 in
                                                Ok (modeargs, ch_modes, ch_nicks))) ;;
                                          let '(modeargs, ch_modes, ch_nicks) := p6 in
                                          Ok (modeargs, ch_modes, ch_nicks))) ;;
                                    let '(modeargs, ch_modes, ch_nicks) := p5 in
                                    Ok (modeargs, ch_modes, ch_nicks))) ;;
                              let '(modeargs, ch_modes, ch_nicks) := p4 in
                              Ok (modeargs, ch_modes, ch_nicks))) ;;
                        let '(modeargs, ch_modes, ch_nicks) := p3 in
                        Ok (modeargs, modeop, modestr, ch_modes, ch_nicks))) ;;
                  let '(modeargs, modeop, modestr, ch_modes, ch_nicks) := p2 in
                  Ok (modeargs, modeop, modestr, ch_modes, ch_nicks))) ;;
            let '(modeargs, modeop, modestr, ch_modes, ch_nicks) := p1 in
            let i : Z := i + 1 in
            loop1 fuel' modeargs modeop modestr i ch_modes ch_nicks
        end)
      else
        Ok (modeargs, modeop, modestr, i, ch_modes, ch_nicks) in
  p27 <- loop1 (S (length modes)) modeargs modeop modestr i ch_modes ch_nicks ;;
  let '(modeargs, modeop, modestr, i, ch_modes, ch_nicks) := p27 in
  Ok (ch_modes, ch_nicks).

(* net.JoinHostPort — a variable, as every stdlib function that is not transliterated *)
Variable go_net_JoinHostPort : bytes -> bytes -> bytes.

(* Conn.internalConnect_if_hasPort — client/connection.go *)
Definition go_client_Conn_internalConnect_if_hasPort (conn_cfg_SSL : bool) (conn_cfg_Server : bytes) : res bytes :=
  t1 <- go_client_hasPort conn_cfg_Server ;;
  if negb t1 then
    (if conn_cfg_SSL then
      Ok (go_net_JoinHostPort conn_cfg_Server [54; 54; 57; 55]%N)
    else
      Ok (go_net_JoinHostPort conn_cfg_Server [54; 54; 54; 55]%N))
  else
    Ok conn_cfg_Server.

(* Conn.write — client/connection.go *)
Definition go_client_Conn_write (conn_badness : Z) (conn_cfg_Flood : bool) (conn_lastsent : Z) (line : bytes) (now1 : Z) (now2 : Z) (iow1 : Z * bool) (ioe2 : bool) : res (Z * Z * list Z * list (bytes * bool) * list (bytes * bytes * list bytes) * bool) :=
  let sleeps : list Z := [] in
  let io : list (bytes * bool) := [] in
  let logs : list (bytes * bytes * list bytes) := [] in
  p1 <- (
      if negb conn_cfg_Flood then
        (p2 <- go_client_Conn_rateLimit conn_badness conn_lastsent (len line) now1 now2 ;;
        let '(conn_badness, conn_lastsent, t1) := p2 in
        let t : Z := t1 in
        let sleeps : list Z := (
            if negb (t =? 0) then
              sleeps ++ [t]
            else
              sleeps) in
        Ok (conn_badness, conn_lastsent, sleeps))
      else
        Ok (conn_badness, conn_lastsent, sleeps)) ;;
  let '(conn_badness, conn_lastsent, sleeps) := p1 in
  io <- Ok (io ++ [(line ++ [13; 10]%N, false)]) ;;
  let '(_, err) := iow1 in
  if err then
    Ok (conn_badness, conn_lastsent, sleeps, io, logs, err)
  else
    (io <- Ok (io ++ [([], true)]) ;;
    let err_1 : bool := ioe2 in
    if err_1 then
      Ok (conn_badness, conn_lastsent, sleeps, io, logs, err_1)
    else
      (let line : bytes := (
          if has_prefix line [80; 65; 83; 83]%N then
            [80; 65; 83; 83; 32; 42; 42; 42; 42; 42; 42; 42; 42; 42; 42; 42; 42; 42; 42]%N
          else
            line) in
      let logs : list (bytes * bytes * list bytes) := logs ++ [([68; 101; 98; 117; 103]%N, [45; 62; 32; 37; 115]%N, [line])] in
      Ok (conn_badness, conn_lastsent, sleeps, io, logs, false))).

End WithTracker.
Arguments go_state_Tracker_Associate {go_state_Nick_rest go_state_Channel_rest ST} _.
Arguments go_state_Tracker_ChannelModes {go_state_Nick_rest go_state_Channel_rest ST} _.
Arguments go_state_Tracker_DelChannel {go_state_Nick_rest go_state_Channel_rest ST} _.
Arguments go_state_Tracker_DelNick {go_state_Nick_rest go_state_Channel_rest ST} _.
Arguments go_state_Tracker_Dissociate {go_state_Nick_rest go_state_Channel_rest ST} _.
Arguments go_state_Tracker_GetChannel {go_state_Nick_rest go_state_Channel_rest ST} _.
Arguments go_state_Tracker_GetNick {go_state_Nick_rest go_state_Channel_rest ST} _.
Arguments go_state_Tracker_IsOn {go_state_Nick_rest go_state_Channel_rest ST} _.
Arguments go_state_Tracker_Me {go_state_Nick_rest go_state_Channel_rest ST} _.
Arguments go_state_Tracker_NewChannel {go_state_Nick_rest go_state_Channel_rest ST} _.
Arguments go_state_Tracker_NewNick {go_state_Nick_rest go_state_Channel_rest ST} _.
Arguments go_state_Tracker_NickInfo {go_state_Nick_rest go_state_Channel_rest ST} _.
Arguments go_state_Tracker_NickModes {go_state_Nick_rest go_state_Channel_rest ST} _.
Arguments go_state_Tracker_ReNick {go_state_Nick_rest go_state_Channel_rest ST} _.
Arguments go_state_Tracker_String {go_state_Nick_rest go_state_Channel_rest ST} _.
Arguments go_state_Tracker_Topic {go_state_Nick_rest go_state_Channel_rest ST} _.
Arguments go_state_Tracker_Wipe {go_state_Nick_rest go_state_Channel_rest ST} _.
