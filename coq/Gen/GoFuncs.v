(* GENERATED from the Go source by /verif/translator (go2coq.go) on every check run — do not edit.
   One definition per translated Go function: its BODY, statement by statement, in the res
   monad of Lib/GoBytes.v.  Proofs/GenEq*.v prove each one equal to the hand-written model.
   A function outside the supported subset appears as  go_<pkg>_<func>_UNSUPPORTED. *)
From Verif Require Import GoBytes LineLib.
Open Scope Z_scope.

(* uint8 arithmetic wraps modulo 256 (operands are bytes, < 256) *)
Definition go_byte_add (a b : N) : N := ((a + b) mod 256)%N.
Definition go_byte_sub (a b : N) : N := ((a + 256 - b) mod 256)%N.
Definition go_byte_mul (a b : N) : N := ((a * b) mod 256)%N.
(* string(c) for a byte c: the UTF-8 encoding of the code point c *)
Definition go_string_of_byte (c : N) : bytes :=
  if (c <? 128)%N then [c] else [(192 + c / 64)%N; (128 + c mod 64)%N].
(* x / y and x % y on int with a divisor that is not a non-zero constant *)
Definition go_int_quot (a b : Z) : res Z := if b =? 0 then Panic else Ok (Z.quot a b).
Definition go_int_rem (a b : Z) : res Z := if b =? 0 then Panic else Ok (Z.rem a b).
(* m[k] = v on a map[string]string (None = nil map: assignment panics) *)
Definition go_map_set (m : option tagmap) (k v : bytes) : res (option tagmap) :=
  match m with Some mm => Ok (Some (tags_set mm k v)) | None => Panic end.

(* cutNewLines — client/commands.go *)
Definition go_client_cutNewLines (s : bytes) : res bytes :=
  let r : list bytes := split2 s [13]%N in
  t1 <- elem_at r 0 ;;
  let r : list bytes := split2 t1 [10]%N in
  elem_at r 0.

(* indexFragment — client/commands.go *)
Definition go_client_indexFragment (s : bytes) : res Z :=
  let max : Z := (-1) in
  let fix loop1 (l : list bytes) (max : Z) {struct l} : Z :=
      match l with
      | [] => max
      | sep :: l' =>
          let idx : Z := last_index s sep in
          let max : Z := (
              if idx >? max then
                idx
              else
                max) in
          loop1 l' max
      end in
  let max := loop1 [[46; 32]%N; [58; 32]%N; [59; 32]%N; [44; 32]%N; [33; 32]%N; [63; 32]%N; [34; 32]%N; [39; 32]%N] max in
  if max >? 0 then
    Ok (max + 2)
  else
    (let idx_1 : Z := last_index s [32]%N in
    if idx_1 >? 0 then
      Ok (idx_1 + 1)
    else
      Ok (-1)).

(* splitMessage — client/commands.go *)
Definition go_client_splitMessage (msg : bytes) (splitLen : Z) : res (list bytes) :=
  let msgs : list bytes := [] in
  let splitLen : Z := (
      if splitLen <? 13 then
        450
      else
        splitLen) in
  let fix loop1 (fuel : nat) (msg : bytes) (msgs : list bytes) {struct fuel} : res (bytes * list bytes) :=
      if len msg >? splitLen then
        (match fuel with
        | O => Panic
        | S fuel' =>
            t1 <- slice_to msg (splitLen - 3) ;;
            idx <- go_client_indexFragment t1 ;;
            let idx : Z := (
                if idx <? 0 then
                  splitLen - 3
                else
                  idx) in
            t3 <- slice_to msg idx ;;
            let msgs : list bytes := msgs ++ [t3 ++ [46; 46; 46]%N] in
            msg <- slice_from msg idx ;;
            loop1 fuel' msg msgs
        end)
      else
        Ok (msg, msgs) in
  p1 <- loop1 (S (length msg)) msg msgs ;;
  let '(msg, msgs) := p1 in
  Ok (msgs ++ [msg]).

(* splitArgs — client/commands.go *)
Definition go_client_splitArgs (args : list bytes) (maxLen : Z) : res (list bytes) :=
  let res_ : list bytes := [] in
  let i : Z := 0 in
  let fix loop1 (fuel : nat) (res_ : list bytes) (i : Z) {struct fuel} : res (list bytes * Z) :=
      if i <? llen args then
        (match fuel with
        | O => Panic
        | S fuel' =>
            currArg <- elem_at args i ;;
            let i : Z := i + 1 in
            let fix loop2 (fuel : nat) (i : Z) (currArg : bytes) {struct fuel} : res (Z * bytes) :=
                t3 <- (if i <? llen args then t2 <- elem_at args i ;; Ok (((len currArg + len t2) + 1) <? maxLen) else Ok false) ;;
                if t3 then
                  (match fuel with
                  | O => Panic
                  | S fuel' =>
                      t4 <- elem_at args i ;;
                      let currArg : bytes := currArg ++ ([32]%N ++ t4) in
                      let i : Z := i + 1 in
                      loop2 fuel' i currArg
                  end)
                else
                  Ok (i, currArg) in
            p1 <- loop2 (S (length args + length currArg)) i currArg ;;
            let '(i, currArg) := p1 in
            let res_ : list bytes := res_ ++ [currArg] in
            loop1 fuel' res_ i
        end)
      else
        Ok (res_, i) in
  p2 <- loop1 (S (length args)) res_ i ;;
  let '(res_, i) := p2 in
  Ok res_.

(* DefaultNewNick — client/connection.go *)
Definition go_client_DefaultNewNick (old : bytes) : res bytes :=
  if len old =? 0 then
    Ok [95]%N
  else
    (c <- byte_at old (len old - 1) ;;
    let c : N := (
        if (48%N <=? c)%N && (c <=? 57%N)%N then
          go_byte_add 48%N (go_byte_add (go_byte_sub c 48%N) 1%N mod 10%N)%N
        else
          (if (65%N <=? c)%N && (c <=? 125%N)%N then
            go_byte_add 65%N (go_byte_add (go_byte_sub c 65%N) 1%N mod 61%N)%N
          else
            95%N)) in
    t2 <- slice_to old (len old - 1) ;;
    Ok (t2 ++ go_string_of_byte c)).

(* hasPort — client/connection.go *)
Definition go_client_hasPort (s : bytes) : res bool :=
  Ok (last_index s [58]%N >? last_index s [93]%N).

(* parseUserHost — client/line.go *)
Definition go_client_parseUserHost (uh : bytes) : res (bytes * bytes * bytes * bool) :=
  let nick : bytes := [] in
  let ident : bytes := [] in
  let host : bytes := [] in
  let ok : bool := false in
  let uh : bytes := trim_space uh in
  let '(nidx, uidx) := (index uh [33]%N, index uh [64]%N) in
  if ((uidx =? (-1)) || (nidx =? (-1))) || (nidx >? uidx) then
    Ok ([], [], [], false)
  else
    (t1 <- slice_to uh nidx ;;
    t2 <- slice uh (nidx + 1) uidx ;;
    t3 <- slice_from uh (uidx + 1) ;;
    Ok (t1, t2, t3, true)).

(* Line.Text — client/line.go *)
Definition go_client_Line_Text (line_Args : list bytes) : res bytes :=
  if llen line_Args >? 0 then
    elem_at line_Args (llen line_Args - 1)
  else
    Ok [].

(* Line.Public — client/line.go *)
Definition go_client_Line_Public (line_Args : list bytes) (line_Cmd : bytes) : res bool :=
  let k1 := fun (_ : unit) =>
      Ok false in
  if (beq line_Cmd [80; 82; 73; 86; 77; 83; 71]%N || beq line_Cmd [78; 79; 84; 73; 67; 69]%N) || beq line_Cmd [65; 67; 84; 73; 79; 78]%N then
    (t2 <- (if llen line_Args <? 1 then Ok true else t1 <- elem_at line_Args 0 ;; Ok (beq t1 [])) ;;
    if t2 then
      Ok false
    else
      (t3 <- elem_at line_Args 0 ;;
      t4 <- byte_at t3 0 ;;
      if (((t4 =? 35%N)%N || (t4 =? 38%N)%N) || (t4 =? 43%N)%N) || (t4 =? 33%N)%N then
        Ok true
      else
        k1 tt))
  else
    (let k2 := fun (_ : unit) =>
        k1 tt in
    if beq line_Cmd [67; 84; 67; 80]%N || beq line_Cmd [67; 84; 67; 80; 82; 69; 80; 76; 89]%N then
      (t6 <- (if llen line_Args <? 2 then Ok true else t5 <- elem_at line_Args 1 ;; Ok (beq t5 [])) ;;
      if t6 then
        Ok false
      else
        (t7 <- elem_at line_Args 1 ;;
        t8 <- byte_at t7 0 ;;
        if (((t8 =? 35%N)%N || (t8 =? 38%N)%N) || (t8 =? 43%N)%N) || (t8 =? 33%N)%N then
          Ok true
        else
          k2 tt))
    else
      k2 tt).

(* Line.Target — client/line.go *)
Definition go_client_Line_Target (line_Args : list bytes) (line_Cmd : bytes) (line_Nick : bytes) : res bytes :=
  let k1 := fun (_ : unit) =>
      if llen line_Args >? 0 then
        elem_at line_Args 0
      else
        Ok [] in
  if (beq line_Cmd [80; 82; 73; 86; 77; 83; 71]%N || beq line_Cmd [78; 79; 84; 73; 67; 69]%N) || beq line_Cmd [65; 67; 84; 73; 79; 78]%N then
    (t2 <- go_client_Line_Public line_Args line_Cmd ;;
    if negb t2 then
      Ok line_Nick
    else
      k1 tt)
  else
    (if beq line_Cmd [67; 84; 67; 80]%N || beq line_Cmd [67; 84; 67; 80; 82; 69; 80; 76; 89]%N then
      (t3 <- go_client_Line_Public line_Args line_Cmd ;;
      if negb t3 then
        Ok line_Nick
      else
        elem_at line_Args 1)
    else
      k1 tt).

(* Conn.rateLimit — client/connection.go *)
Definition go_client_Conn_rateLimit (conn_badness : Z) (conn_lastsent : Z) (chars : Z) (now1 : Z) (now2 : Z) : res (Z * Z * Z) :=
  let linetime : Z := 2000000000 + Z.quot (chars * 1000000000) 120 in
  let elapsed : Z := now1 - conn_lastsent in
  let conn_badness : Z := conn_badness + (linetime - elapsed) in
  let conn_badness : Z := (
      if conn_badness <? 0 then
        0
      else
        conn_badness) in
  let conn_lastsent : Z := now2 in
  if conn_badness >? 10000000000 then
    Ok (conn_badness, conn_lastsent, linetime)
  else
    Ok (conn_badness, conn_lastsent, 0).

(* Conn.Raw — client/commands.go *)
Definition go_client_Conn_Raw (rawline : bytes) : res (list bytes) :=
  let out : list bytes := [] in
  t1 <- go_client_cutNewLines rawline ;;
  Ok (out ++ [t1]).

(* Conn.Pass — client/commands.go *)
Definition go_client_Conn_Pass (password : bytes) : res (list bytes) :=
  let out : list bytes := [] in
  t1 <- go_client_Conn_Raw ([80; 65; 83; 83; 32]%N ++ password) ;;
  Ok (out ++ t1).

(* Conn.Nick — client/commands.go *)
Definition go_client_Conn_Nick (nick : bytes) : res (list bytes) :=
  let out : list bytes := [] in
  t1 <- go_client_Conn_Raw ([78; 73; 67; 75; 32]%N ++ nick) ;;
  Ok (out ++ t1).

(* Conn.User — client/commands.go *)
Definition go_client_Conn_User (ident : bytes) (name : bytes) : res (list bytes) :=
  let out : list bytes := [] in
  t1 <- go_client_Conn_Raw ((([85; 83; 69; 82; 32]%N ++ ident) ++ [32; 49; 50; 32; 42; 32; 58]%N) ++ name) ;;
  Ok (out ++ t1).

(* Conn.Join — client/commands.go *)
Definition go_client_Conn_Join (channel : bytes) (key : list bytes) : res (list bytes) :=
  let out : list bytes := [] in
  let k : bytes := [] in
  k <- (
      if llen key >? 0 then
        (t1 <- elem_at key 0 ;;
        Ok ([32]%N ++ t1))
      else
        Ok k) ;;
  t2 <- go_client_Conn_Raw (([74; 79; 73; 78; 32]%N ++ channel) ++ k) ;;
  Ok (out ++ t2).

(* Conn.Part — client/commands.go *)
Definition go_client_Conn_Part (channel : bytes) (message : list bytes) : res (list bytes) :=
  let out : list bytes := [] in
  let msg : bytes := join message [32]%N in
  let msg : bytes := (
      if negb (beq msg []) then
        [32; 58]%N ++ msg
      else
        msg) in
  t1 <- go_client_Conn_Raw (([80; 65; 82; 84; 32]%N ++ channel) ++ msg) ;;
  Ok (out ++ t1).

(* Conn.Kick — client/commands.go *)
Definition go_client_Conn_Kick (channel : bytes) (nick : bytes) (message : list bytes) : res (list bytes) :=
  let out : list bytes := [] in
  let msg : bytes := join message [32]%N in
  let msg : bytes := (
      if negb (beq msg []) then
        [32; 58]%N ++ msg
      else
        msg) in
  t1 <- go_client_Conn_Raw (((([75; 73; 67; 75; 32]%N ++ channel) ++ [32]%N) ++ nick) ++ msg) ;;
  Ok (out ++ t1).

(* Conn.Quit — client/commands.go *)
Definition go_client_Conn_Quit (conn_cfg_QuitMessage : bytes) (message : list bytes) : res (list bytes) :=
  let out : list bytes := [] in
  let msg : bytes := join message [32]%N in
  let msg : bytes := (
      if beq msg [] then
        conn_cfg_QuitMessage
      else
        msg) in
  t1 <- go_client_Conn_Raw ([81; 85; 73; 84; 32; 58]%N ++ msg) ;;
  Ok (out ++ t1).

(* Conn.Whois — client/commands.go *)
Definition go_client_Conn_Whois (nick : bytes) : res (list bytes) :=
  let out : list bytes := [] in
  t1 <- go_client_Conn_Raw ([87; 72; 79; 73; 83; 32]%N ++ nick) ;;
  Ok (out ++ t1).

(* Conn.Who — client/commands.go *)
Definition go_client_Conn_Who (nick : bytes) : res (list bytes) :=
  let out : list bytes := [] in
  t1 <- go_client_Conn_Raw ([87; 72; 79; 32]%N ++ nick) ;;
  Ok (out ++ t1).

(* Conn.Privmsg — client/commands.go *)
Definition go_client_Conn_Privmsg (conn_cfg_SplitLen : Z) (t : bytes) (msg : bytes) : res (list bytes) :=
  let out : list bytes := [] in
  let prefix : bytes := ([80; 82; 73; 86; 77; 83; 71; 32]%N ++ t) ++ [32; 58]%N in
  t1 <- go_client_splitMessage msg conn_cfg_SplitLen ;;
  let fix loop1 (l : list bytes) (out : list bytes) {struct l} : res (list bytes) :=
      match l with
      | [] => Ok out
      | s :: l' =>
          t2 <- go_client_Conn_Raw (prefix ++ s) ;;
          let out : list bytes := out ++ t2 in
          loop1 l' out
      end in
  out <- loop1 t1 out ;;
  Ok out.

(* Conn.Notice — client/commands.go *)
Definition go_client_Conn_Notice (conn_cfg_SplitLen : Z) (t : bytes) (msg : bytes) : res (list bytes) :=
  let out : list bytes := [] in
  t1 <- go_client_splitMessage msg conn_cfg_SplitLen ;;
  let fix loop1 (l : list bytes) (out : list bytes) {struct l} : res (list bytes) :=
      match l with
      | [] => Ok out
      | s :: l' =>
          t2 <- go_client_Conn_Raw ((([78; 79; 84; 73; 67; 69; 32]%N ++ t) ++ [32; 58]%N) ++ s) ;;
          let out : list bytes := out ++ t2 in
          loop1 l' out
      end in
  out <- loop1 t1 out ;;
  Ok out.

(* Conn.Ctcp — client/commands.go *)
Definition go_client_Conn_Ctcp (conn_cfg_SplitLen : Z) (t : bytes) (ctcp : bytes) (arg : list bytes) : res (list bytes) :=
  let out : list bytes := [] in
  t1 <- go_client_splitMessage (join arg [32]%N) conn_cfg_SplitLen ;;
  let fix loop1 (l : list bytes) (out : list bytes) {struct l} : res (list bytes) :=
      match l with
      | [] => Ok out
      | s :: l' =>
          let s : bytes := (
              if negb (beq s []) then
                [32]%N ++ s
              else
                s) in
          t2 <- go_client_Conn_Raw ((((([80; 82; 73; 86; 77; 83; 71; 32]%N ++ t) ++ [32; 58; 1]%N) ++ to_upper ctcp) ++ s) ++ [1]%N) ;;
          let out : list bytes := out ++ t2 in
          loop1 l' out
      end in
  out <- loop1 t1 out ;;
  Ok out.

(* Conn.CtcpReply — client/commands.go *)
Definition go_client_Conn_CtcpReply (conn_cfg_SplitLen : Z) (t : bytes) (ctcp : bytes) (arg : list bytes) : res (list bytes) :=
  let out : list bytes := [] in
  t1 <- go_client_splitMessage (join arg [32]%N) conn_cfg_SplitLen ;;
  let fix loop1 (l : list bytes) (out : list bytes) {struct l} : res (list bytes) :=
      match l with
      | [] => Ok out
      | s :: l' =>
          let s : bytes := (
              if negb (beq s []) then
                [32]%N ++ s
              else
                s) in
          t2 <- go_client_Conn_Raw ((((([78; 79; 84; 73; 67; 69; 32]%N ++ t) ++ [32; 58; 1]%N) ++ to_upper ctcp) ++ s) ++ [1]%N) ;;
          let out : list bytes := out ++ t2 in
          loop1 l' out
      end in
  out <- loop1 t1 out ;;
  Ok out.

(* Conn.Version — client/commands.go *)
Definition go_client_Conn_Version (conn_cfg_SplitLen : Z) (t : bytes) : res (list bytes) :=
  let out : list bytes := [] in
  t1 <- go_client_Conn_Ctcp conn_cfg_SplitLen t [86; 69; 82; 83; 73; 79; 78]%N [] ;;
  Ok (out ++ t1).

(* Conn.Action — client/commands.go *)
Definition go_client_Conn_Action (conn_cfg_SplitLen : Z) (t : bytes) (msg : bytes) : res (list bytes) :=
  let out : list bytes := [] in
  t1 <- go_client_Conn_Ctcp conn_cfg_SplitLen t [65; 67; 84; 73; 79; 78]%N [msg] ;;
  Ok (out ++ t1).

(* Conn.Topic — client/commands.go *)
Definition go_client_Conn_Topic (channel : bytes) (topic : list bytes) : res (list bytes) :=
  let out : list bytes := [] in
  let t : bytes := join topic [32]%N in
  let t : bytes := (
      if negb (beq t []) then
        [32; 58]%N ++ t
      else
        t) in
  t1 <- go_client_Conn_Raw (([84; 79; 80; 73; 67; 32]%N ++ channel) ++ t) ;;
  Ok (out ++ t1).

(* Conn.Mode — client/commands.go *)
Definition go_client_Conn_Mode (t : bytes) (modestring : list bytes) : res (list bytes) :=
  let out : list bytes := [] in
  let mode : bytes := join modestring [32]%N in
  let mode : bytes := (
      if negb (beq mode []) then
        [32]%N ++ mode
      else
        mode) in
  t1 <- go_client_Conn_Raw (([77; 79; 68; 69; 32]%N ++ t) ++ mode) ;;
  Ok (out ++ t1).

(* Conn.Away — client/commands.go *)
Definition go_client_Conn_Away (message : list bytes) : res (list bytes) :=
  let out : list bytes := [] in
  let msg : bytes := join message [32]%N in
  let msg : bytes := (
      if negb (beq msg []) then
        [32; 58]%N ++ msg
      else
        msg) in
  t1 <- go_client_Conn_Raw ([65; 87; 65; 89]%N ++ msg) ;;
  Ok (out ++ t1).

(* Conn.Invite — client/commands.go *)
Definition go_client_Conn_Invite (nick : bytes) (channel : bytes) : res (list bytes) :=
  let out : list bytes := [] in
  t1 <- go_client_Conn_Raw ((([73; 78; 86; 73; 84; 69; 32]%N ++ nick) ++ [32]%N) ++ channel) ;;
  Ok (out ++ t1).

(* Conn.Oper — client/commands.go *)
Definition go_client_Conn_Oper (user : bytes) (pass : bytes) : res (list bytes) :=
  let out : list bytes := [] in
  t1 <- go_client_Conn_Raw ((([79; 80; 69; 82; 32]%N ++ user) ++ [32]%N) ++ pass) ;;
  Ok (out ++ t1).

(* Conn.VHost — client/commands.go *)
Definition go_client_Conn_VHost (user : bytes) (pass : bytes) : res (list bytes) :=
  let out : list bytes := [] in
  t1 <- go_client_Conn_Raw ((([86; 72; 79; 83; 84; 32]%N ++ user) ++ [32]%N) ++ pass) ;;
  Ok (out ++ t1).

(* Conn.Ping — client/commands.go *)
Definition go_client_Conn_Ping (message : bytes) : res (list bytes) :=
  let out : list bytes := [] in
  t1 <- go_client_Conn_Raw ([80; 73; 78; 71; 32; 58]%N ++ message) ;;
  Ok (out ++ t1).

(* Conn.Pong — client/commands.go *)
Definition go_client_Conn_Pong (message : bytes) : res (list bytes) :=
  let out : list bytes := [] in
  t1 <- go_client_Conn_Raw ([80; 79; 78; 71; 32; 58]%N ++ message) ;;
  Ok (out ++ t1).

(* Conn.Cap — client/commands.go *)
Definition go_client_Conn_Cap (subcommmand : bytes) (capabilities : list bytes) : res (list bytes) :=
  let out : list bytes := [] in
  if llen capabilities =? 0 then
    (t1 <- go_client_Conn_Raw ([67; 65; 80; 32]%N ++ subcommmand) ;;
    Ok (out ++ t1))
  else
    (let cmdPrefix : bytes := ([67; 65; 80; 32]%N ++ subcommmand) ++ [32; 58]%N in
    t2 <- go_client_splitArgs capabilities (450 - len cmdPrefix) ;;
    let fix loop1 (l : list bytes) (out : list bytes) {struct l} : res (list bytes) :=
        match l with
        | [] => Ok out
        | args :: l' =>
            t3 <- go_client_Conn_Raw (cmdPrefix ++ args) ;;
            let out : list bytes := out ++ t3 in
            loop1 l' out
        end in
    out <- loop1 t2 out ;;
    Ok out).

(* Conn.Authenticate — client/commands.go *)
Definition go_client_Conn_Authenticate (message : bytes) : res (list bytes) :=
  let out : list bytes := [] in
  t1 <- go_client_Conn_Raw ([65; 85; 84; 72; 69; 78; 84; 73; 67; 65; 84; 69; 32]%N ++ message) ;;
  Ok (out ++ t1).

(* var tagsReplacer = strings.NewReplacer(...) *)
Definition go_client_tagsReplacer : list (bytes * bytes) :=
  [([92; 58]%N, [59]%N); ([92; 115]%N, [32]%N); ([92; 92]%N, [92]%N); ([92; 114]%N, [13]%N); ([92; 110]%N, [10]%N)].

(* ParseLine — client/line.go *)
Definition go_client_ParseLine (s : bytes) : res (option (option tagmap * bytes * bytes * bytes * bytes * bytes * bytes * list bytes)) :=
  let line_Tags : option tagmap := None in
  let line_Nick : bytes := [] in
  let line_Ident : bytes := [] in
  let line_Host : bytes := [] in
  let line_Src : bytes := [] in
  let line_Cmd : bytes := [] in
  let line_Raw : bytes := s in
  let line_Args : list bytes := [] in
  if beq s [] then
    Ok None
  else
    (t1 <- byte_at s 0 ;;
    let k1 := fun (p : bytes * option tagmap) =>
        let '(s, line_Tags) := p in
        if beq s [] then
          Ok None
        else
          (t2 <- byte_at s 0 ;;
          let k2 := fun (p : bytes * bytes * bytes * bytes * bytes) =>
              let '(s, line_Nick, line_Ident, line_Host, line_Src) := p in
              let args : list bytes := split2 s [32; 58]%N in
              t3 <- elem_at args 0 ;;
              let fields_ : list bytes := fields t3 in
              if llen fields_ =? 0 then
                Ok None
              else
                (args <- (
                    if llen args >? 1 then
                      (t4 <- elem_at args 1 ;;
                      Ok (fields_ ++ [t4]))
                    else
                      Ok fields_) ;;
                t5 <- elem_at args 0 ;;
                let line_Cmd : bytes := to_upper t5 in
                line_Args <- (
                    if llen args >? 1 then
                      elems_from args 1
                    else
                      Ok line_Args) ;;
                t8 <- (if (beq line_Cmd [80; 82; 73; 86; 77; 83; 71]%N || beq line_Cmd [78; 79; 84; 73; 67; 69]%N) && (llen line_Args >? 1) then t7 <- elem_at line_Args 1 ;; Ok (len t7 >? 2) else Ok false) ;;
                t10 <- (if t8 then t9 <- elem_at line_Args 1 ;; Ok (has_prefix t9 [1]%N) else Ok false) ;;
                t12 <- (if t10 then t11 <- elem_at line_Args 1 ;; Ok (has_suffix t11 [1]%N) else Ok false) ;;
                p1 <- (
                    if t12 then
                      (t13 <- elem_at line_Args 1 ;;
                      let t : list bytes := split2 (trim t13 [1]%N) [32]%N in
                      line_Args <- (
                          if llen t >? 1 then
                            (t14 <- elem_at t 1 ;;
                            set_elem line_Args 1 t14)
                          else
                            Ok line_Args) ;;
                      t15 <- elem_at t 0 ;;
                      let c : bytes := to_upper t15 in
                      let '(line_Cmd, line_Args) := (
                          if beq c [65; 67; 84; 73; 79; 78]%N && beq line_Cmd [80; 82; 73; 86; 77; 83; 71]%N then
                            (let line_Cmd : bytes := c in
                            (line_Cmd, line_Args))
                          else
                            (let line_Cmd : bytes := (
                                if beq line_Cmd [80; 82; 73; 86; 77; 83; 71]%N then
                                  [67; 84; 67; 80]%N
                                else
                                  [67; 84; 67; 80; 82; 69; 80; 76; 89]%N) in
                            let line_Args : list bytes := [c] ++ line_Args in
                            (line_Cmd, line_Args))) in
                      Ok (line_Cmd, line_Args))
                    else
                      Ok (line_Cmd, line_Args)) ;;
                let '(line_Cmd, line_Args) := p1 in
                Ok (Some (line_Tags, line_Nick, line_Ident, line_Host, line_Src, line_Cmd, line_Raw, line_Args))) in
          if (t2 =? 58%N)%N then
            (let idx : Z := index s [32]%N in
            if negb (idx =? (-1)) then
              (t16 <- slice s 1 idx ;;
              t17 <- slice_from s (idx + 1) ;;
              let '(line_Src, s) := (t16, t17) in
              let line_Host : bytes := line_Src in
              t18 <- go_client_parseUserHost line_Src ;;
              let '(n, i, h, ok) := t18 in
              let '(line_Nick, line_Ident, line_Host) := (
                  if ok then
                    (let line_Nick : bytes := n in
                    let line_Ident : bytes := i in
                    let line_Host : bytes := h in
                    (line_Nick, line_Ident, line_Host))
                  else
                    (line_Nick, line_Ident, line_Host)) in
              k2 (s, line_Nick, line_Ident, line_Host, line_Src))
            else
              Ok None)
          else
            k2 (s, line_Nick, line_Ident, line_Host, line_Src)) in
    if (t1 =? 64%N)%N then
      (let rawTags : bytes := [] in
      let line_Tags : option tagmap := Some [] in
      let idx_1 : Z := index s [32]%N in
      if negb (idx_1 =? (-1)) then
        (t19 <- slice s 1 idx_1 ;;
        t20 <- slice_from s (idx_1 + 1) ;;
        let '(rawTags, s) := (t19, t20) in
        let fix loop1 (l : list bytes) (line_Tags : option tagmap) {struct l} : res (option tagmap) :=
            match l with
            | [] => Ok line_Tags
            | tag :: l' =>
                if beq tag [] then
                  loop1 l' line_Tags
                else
                  (let pair : list bytes := split2 (replace_pairs go_client_tagsReplacer tag) [61]%N in
                  line_Tags <- (
                      if llen pair <? 2 then
                        go_map_set line_Tags tag []
                      else
                        (t21 <- elem_at pair 0 ;;
                        t22 <- elem_at pair 1 ;;
                        go_map_set line_Tags t21 t22)) ;;
                  loop1 l' line_Tags)
            end in
        line_Tags <- loop1 (split_byte rawTags 59%N) line_Tags ;;
        k1 (s, line_Tags))
      else
        Ok None)
    else
      k1 (s, line_Tags)).

