(* GENERATED from the Go source by /verif/translator (go2heap.go) on every check run — do not edit.
   Line.Copy (method of *Line) of client/line.go over an explicit heap of Line objects, string arrays (the backing
   arrays of []string) and string maps; every type and primitive is a field of the class heap_ops,
   instantiated in Proofs/GenEqLineCopy.v.  See translator/go2heap.go. *)
From stdpp Require Import gmap.
Open Scope Z_scope.
Notation bytes := (list N) (only parsing).

Fixpoint go_foldM {A S} (f : S -> A -> option S) (s : S) (l : list A) : option S :=
  match l with
  | [] => Some s
  | x :: l' => match f s x with Some s' => go_foldM f s' l' | None => None end
  end.

Class heap_ops := {
  HS : Type;
  Line_obj : Type;
  StrMap_val : Type;
  Time_val : Type;
  hs_next : HS -> positive;
  hs_bump : HS -> HS;
  heap_Line : HS -> gmap positive Line_obj;
  put_Line : HS -> positive -> Line_obj -> HS;
  Line_get_Tags : Line_obj -> option positive;
  Line_set_Tags : Line_obj -> option positive -> Line_obj;
  Line_get_Nick : Line_obj -> bytes;
  Line_set_Nick : Line_obj -> bytes -> Line_obj;
  Line_get_Ident : Line_obj -> bytes;
  Line_set_Ident : Line_obj -> bytes -> Line_obj;
  Line_get_Host : Line_obj -> bytes;
  Line_set_Host : Line_obj -> bytes -> Line_obj;
  Line_get_Src : Line_obj -> bytes;
  Line_set_Src : Line_obj -> bytes -> Line_obj;
  Line_get_Cmd : Line_obj -> bytes;
  Line_set_Cmd : Line_obj -> bytes -> Line_obj;
  Line_get_Raw : Line_obj -> bytes;
  Line_set_Raw : Line_obj -> bytes -> Line_obj;
  Line_get_Args : Line_obj -> option positive * Z;
  Line_set_Args : Line_obj -> option positive * Z -> Line_obj;
  Line_get_Time : Line_obj -> Time_val;
  Line_set_Time : Line_obj -> Time_val -> Line_obj;
  Line_mk : (option positive) -> bytes -> bytes -> bytes -> bytes -> bytes -> bytes -> (option positive * Z) -> Time_val -> Line_obj;
  (* the backing arrays of []string *)
  heap_StrArr : HS -> gmap positive (list bytes);
  put_StrArr : HS -> positive -> list bytes -> HS;
  (* map[string]string objects, of an abstract map type *)
  heap_StrMap : HS -> gmap positive StrMap_val;
  put_StrMap : HS -> positive -> StrMap_val -> HS;
  StrMap_empty : StrMap_val;
  StrMap_set : StrMap_val -> bytes -> bytes -> StrMap_val;
  (* the order in which range visits a string map *)
  enumS : StrMap_val -> list (bytes * bytes)
}.

Section Heap.
Context `{heap_ops}.

(* make([]string, n): a fresh array of n empty strings *)
Definition go_make_strs (s : HS) (n : Z) : option (HS * (option positive * Z)) :=
  if n <? 0 then None
  else let a := hs_next s in Some (put_StrArr (hs_bump s) a (replicate (Z.to_nat n) []), (Some a, n)).
(* copy(dst, src): min(len dst, len src) elements, from index 0 of both backing arrays (slices with
   an offset are not produced by the translated code); nothing is read when that number is 0; a
   slice longer than its backing array cannot exist in Go: None *)
Definition go_copy_strs (s : HS) (dst src : option positive * Z) : option HS :=
  let n := Z.min (snd dst) (snd src) in
  if n <=? 0 then Some s
  else ad ← fst dst; as_ ← fst src; arrd ← heap_StrArr s !! ad; arrs ← heap_StrArr s !! as_;
       if (Z.of_nat (length arrs) <? n) || (Z.of_nat (length arrd) <? n) then None
       else Some (put_StrArr s ad (take (Z.to_nat n) arrs ++ drop (Z.to_nat n) arrd)).

(* Line.Copy — client/line.go *)
Definition go_Line_Copy (s : HS) (l : option positive) : option (HS * (option positive)) :=
  a1 ← l;
  o2 ← heap_Line s !! a1;
  let nl_Tags := Line_get_Tags o2 in
  let nl_Nick := Line_get_Nick o2 in
  let nl_Ident := Line_get_Ident o2 in
  let nl_Host := Line_get_Host o2 in
  let nl_Src := Line_get_Src o2 in
  let nl_Cmd := Line_get_Cmd o2 in
  let nl_Raw := Line_get_Raw o2 in
  let nl_Args := Line_get_Args o2 in
  let nl_Time := Line_get_Time o2 in
  a3 ← l;
  o4 ← heap_Line s !! a3;
  '(s, t5) ← go_make_strs s (snd (Line_get_Args o4));
  let nl_Args := t5 in
  a6 ← l;
  o7 ← heap_Line s !! a6;
  s ← go_copy_strs s nl_Args (Line_get_Args o7);
  a8 ← l;
  o9 ← heap_Line s !! a8;
  if negb (bool_decide (Line_get_Tags o9 = None)) then
    let a10 := hs_next s in
    let s := put_StrMap (hs_bump s) a10 StrMap_empty in
    let nl_Tags := Some a10 in
    a11 ← l;
    o12 ← heap_Line s !! a11;
    es16 ← match Line_get_Tags o12 with None => Some [] | Some a_ => m_ ← heap_StrMap s !! a_; Some (enumS m_) end;
    s ← go_foldM (fun (acc_ : HS) (e13 : bytes * bytes) =>
          let s := acc_ in
          let k := fst e13 in
          let v_ := snd e13 in
          a14 ← nl_Tags;
          m15 ← heap_StrMap s !! a14;
          let s := put_StrMap s a14 (StrMap_set m15 k v_) in
          Some s
        ) s es16;
    let a17 := hs_next s in
    let s := put_Line (hs_bump s) a17 (Line_mk nl_Tags nl_Nick nl_Ident nl_Host nl_Src nl_Cmd nl_Raw nl_Args nl_Time) in
    Some (s, Some a17)
  else
    let a18 := hs_next s in
    let s := put_Line (hs_bump s) a18 (Line_mk nl_Tags nl_Nick nl_Ident nl_Host nl_Src nl_Cmd nl_Raw nl_Args nl_Time) in
    Some (s, Some a18).

End Heap.
