(* GENERATED from the Go source by /verif/translator on every check run — do not edit. *)
From Coq Require Import String List.
Import ListNotations.
Local Open Scope string_scope.

Definition flow_client_Client : list string :=
  ["if{"; "NewConfig"; "}"; "if{"; "}"; "if{"; "hasPort"; "if{"; "}"; "net.ResolveTCPAddr"; "if{"; "}"; "else{"; "}"; "}"; "if{"; "}"; "handlerSet"; "handlerSet"; "handlerSet"; "time.Now"; "capabilitySet"; "capabilitySet"; "conn.addIntHandlers"; "return"].
Definition conds_client_Client : list string :=
  ["cfg == nil"; "cfg.Me == nil || cfg.Me.Nick == """" || cfg.Me.Ident == """""; "cfg.LocalAddr != """""; "!hasPort(cfg.LocalAddr)"; "err == nil"; "cfg.Sasl != nil && !cfg.EnableCapabilityNegotiation"].
Definition inits_client_Client : list string :=
  ["Nick: ""__idiot__"""; "cfg: cfg"; "dialer: dialer"; "intHandlers: handlerSet()"; "fgHandlers: handlerSet()"; "bgHandlers: handlerSet()"; "stRemovers: make([]Remover, 0, len(stHandlers))"; "lastsent: time.Now()"; "supportedCaps: capabilitySet()"; "currCaps: capabilitySet()"; "saslRemainingData: nil"].
Definition assigns_client_Client : list string :=
  ["cfg.Me = &state.Nick{Nick: ""__idiot__""}"; "cfg.Me.Ident = ""goirc"""; "cfg.Me.Name = ""Powered by GoIRC"""; "dialer.Timeout = cfg.Timeout"; "dialer.DualStack = cfg.DualStack"; "dialer.LocalAddr = local"; "cfg.EnableCapabilityNegotiation = true"].
Definition flow_client_Conn_Action : list string :=
  ["conn.Ctcp"].
Definition conds_client_Conn_Action : list string :=
  [].
Definition flow_client_Conn_Authenticate : list string :=
  ["conn.Raw"].
Definition conds_client_Conn_Authenticate : list string :=
  [].
Definition flow_client_Conn_Away : list string :=
  ["if{"; "}"; "conn.Raw"].
Definition conds_client_Conn_Away : list string :=
  ["msg != """""].
Definition flow_client_Conn_Cap : list string :=
  ["if{"; "conn.Raw"; "}"; "else{"; "for{"; "splitArgs"; "conn.Raw"; "}"; "}"].
Definition conds_client_Conn_Cap : list string :=
  ["len(capabilities) == 0"].
Definition flow_client_Conn_Close : list string :=
  ["conn.closeIf"; "return"].
Definition conds_client_Conn_Close : list string :=
  [].
Definition flow_client_Conn_Config : list string :=
  ["return"].
Definition conds_client_Conn_Config : list string :=
  [].
Definition flow_client_Conn_Connect : list string :=
  ["conn.ConnectContext"; "context.Background"; "return"].
Definition conds_client_Conn_Connect : list string :=
  [].
Definition flow_client_Conn_ConnectContext : list string :=
  ["conn.internalConnect"; "if{"; "conn.dispatch"; "time.Now"; "}"; "return"].
Definition conds_client_Conn_ConnectContext : list string :=
  ["err == nil"].
Definition inits_client_Conn_ConnectContext : list string :=
  ["Cmd: REGISTER"; "Time: time.Now()"].
Definition flow_client_Conn_ConnectTo : list string :=
  ["conn.ConnectToContext"; "context.Background"; "return"].
Definition conds_client_Conn_ConnectTo : list string :=
  [].
Definition flow_client_Conn_ConnectToContext : list string :=
  ["set conn.cfg.Server"; "if{"; "set conn.cfg.Pass"; "}"; "conn.ConnectContext"; "return"].
Definition conds_client_Conn_ConnectToContext : list string :=
  ["len(pass) > 0"].
Definition flow_client_Conn_Connected : list string :=
  ["conn.connectedMu.RLock"; "defer conn.connectedMu.RUnlock"; "return"].
Definition conds_client_Conn_Connected : list string :=
  [].
Definition flow_client_Conn_Ctcp : list string :=
  ["for{"; "splitMessage"; "if{"; "}"; "conn.Raw"; "strings.ToUpper"; "}"].
Definition conds_client_Conn_Ctcp : list string :=
  ["s != """""].
Definition flow_client_Conn_CtcpReply : list string :=
  ["for{"; "splitMessage"; "if{"; "}"; "conn.Raw"; "strings.ToUpper"; "}"].
Definition conds_client_Conn_CtcpReply : list string :=
  ["s != """""].
Definition flow_client_Conn_DisableStateTracking : list string :=
  ["conn.mu.Lock"; "defer conn.mu.Unlock"; "if{"; "conn.st.Me"; "set conn.cfg.Me"; "conn.delSTHandlers"; "conn.st.Wipe"; "set conn.st"; "}"].
Definition conds_client_Conn_DisableStateTracking : list string :=
  ["conn.st != nil"].
Definition flow_client_Conn_EnableStateTracking : list string :=
  ["conn.mu.Lock"; "defer conn.mu.Unlock"; "if{"; "state.NewTracker"; "set conn.st"; "conn.st.NickInfo"; "conn.st.Me"; "set conn.cfg.Me"; "conn.addSTHandlers"; "}"].
Definition conds_client_Conn_EnableStateTracking : list string :=
  ["conn.st == nil"].
Definition flow_client_Conn_Handle : list string :=
  ["conn.fgHandlers.add"; "return"].
Definition conds_client_Conn_Handle : list string :=
  [].
Definition flow_client_Conn_HandleBG : list string :=
  ["conn.bgHandlers.add"; "return"].
Definition conds_client_Conn_HandleBG : list string :=
  [].
Definition flow_client_Conn_HandleFunc : list string :=
  ["conn.Handle"; "return"].
Definition conds_client_Conn_HandleFunc : list string :=
  [].
Definition flow_client_Conn_HasCapability : list string :=
  ["conn.currCaps.Has"; "return"].
Definition conds_client_Conn_HasCapability : list string :=
  [].
Definition flow_client_Conn_Invite : list string :=
  ["conn.Raw"].
Definition conds_client_Conn_Invite : list string :=
  [].
Definition flow_client_Conn_Join : list string :=
  ["if{"; "}"; "conn.Raw"].
Definition conds_client_Conn_Join : list string :=
  ["len(key) > 0"].
Definition flow_client_Conn_Kick : list string :=
  ["if{"; "}"; "conn.Raw"].
Definition conds_client_Conn_Kick : list string :=
  ["msg != """""].
Definition flow_client_Conn_LogPanic : list string :=
  ["recover"; "if{"; "}"].
Definition conds_client_Conn_LogPanic : list string :=
  ["err != nil"].
Definition flow_client_Conn_Me : list string :=
  ["if{"; "conn.st.Me"; "set conn.cfg.Me"; "}"; "return"].
Definition conds_client_Conn_Me : list string :=
  ["conn.st != nil"].
Definition flow_client_Conn_Mode : list string :=
  ["if{"; "}"; "conn.Raw"].
Definition conds_client_Conn_Mode : list string :=
  ["mode != """""].
Definition flow_client_Conn_Nick : list string :=
  ["conn.Raw"].
Definition conds_client_Conn_Nick : list string :=
  [].
Definition flow_client_Conn_Notice : list string :=
  ["for{"; "splitMessage"; "conn.Raw"; "}"].
Definition conds_client_Conn_Notice : list string :=
  [].
Definition flow_client_Conn_Oper : list string :=
  ["conn.Raw"].
Definition conds_client_Conn_Oper : list string :=
  [].
Definition flow_client_Conn_Part : list string :=
  ["if{"; "}"; "conn.Raw"].
Definition conds_client_Conn_Part : list string :=
  ["msg != """""].
Definition flow_client_Conn_Pass : list string :=
  ["conn.Raw"].
Definition conds_client_Conn_Pass : list string :=
  [].
Definition flow_client_Conn_Ping : list string :=
  ["conn.Raw"].
Definition conds_client_Conn_Ping : list string :=
  [].
Definition flow_client_Conn_Pong : list string :=
  ["conn.Raw"].
Definition conds_client_Conn_Pong : list string :=
  [].
Definition flow_client_Conn_Privmsg : list string :=
  ["for{"; "splitMessage"; "conn.Raw"; "}"].
Definition conds_client_Conn_Privmsg : list string :=
  [].
Definition flow_client_Conn_Privmsgf : list string :=
  ["conn.Privmsg"].
Definition conds_client_Conn_Privmsgf : list string :=
  [].
Definition flow_client_Conn_Privmsgln : list string :=
  ["conn.Privmsg"].
Definition conds_client_Conn_Privmsgln : list string :=
  [].
Definition flow_client_Conn_Quit : list string :=
  ["if{"; "}"; "conn.Raw"].
Definition conds_client_Conn_Quit : list string :=
  ["msg == """""].
Definition flow_client_Conn_Raw : list string :=
  ["cutNewLines"; "send conn.out"].
Definition conds_client_Conn_Raw : list string :=
  [].
Definition flow_client_Conn_StateTracker : list string :=
  ["return"].
Definition conds_client_Conn_StateTracker : list string :=
  [].
Definition flow_client_Conn_String : list string :=
  ["conn.Connected"; "if{"; "}"; "else{"; "}"; "conn.Me().String"; "conn.Me"; "if{"; "conn.st.String"; "}"; "return"].
Definition conds_client_Conn_String : list string :=
  ["conn.Connected()"; "conn.st != nil"].
Definition flow_client_Conn_SupportsCapability : list string :=
  ["conn.supportedCaps.Has"; "return"].
Definition conds_client_Conn_SupportsCapability : list string :=
  [].
Definition flow_client_Conn_Topic : list string :=
  ["if{"; "}"; "conn.Raw"].
Definition conds_client_Conn_Topic : list string :=
  ["t != """""].
Definition flow_client_Conn_User : list string :=
  ["conn.Raw"].
Definition conds_client_Conn_User : list string :=
  [].
Definition flow_client_Conn_VHost : list string :=
  ["conn.Raw"].
Definition conds_client_Conn_VHost : list string :=
  [].
Definition flow_client_Conn_Version : list string :=
  ["conn.Ctcp"].
Definition conds_client_Conn_Version : list string :=
  [].
Definition flow_client_Conn_Who : list string :=
  ["conn.Raw"].
Definition conds_client_Conn_Who : list string :=
  [].
Definition flow_client_Conn_Whois : list string :=
  ["conn.Raw"].
Definition conds_client_Conn_Whois : list string :=
  [].
Definition flow_client_Conn_addIntHandlers : list string :=
  ["for{"; "conn.handle"; "}"].
Definition conds_client_Conn_addIntHandlers : list string :=
  [].
Definition flow_client_Conn_addSTHandlers : list string :=
  ["for{"; "conn.handle"; "set conn.stRemovers"; "}"].
Definition conds_client_Conn_addSTHandlers : list string :=
  [].
Definition flow_client_Conn_closeIf : list string :=
  ["conn.mu.Lock"; "if{"; "conn.mu.Unlock"; "return"; "}"; "conn.setConnected"; "conn.sock.Close"; "if{"; "conn.die"; "}"; "go func"; "{"; "conn.wg.Wait"; "close"; "}"; "for{"; "select{"; "case"; "recv conn.in"; "case"; "recv conn.out"; "case"; "recv done"; "}"; "}"; "conn.mu.Unlock"; "conn.dispatch"; "time.Now"; "return"].
Definition conds_client_Conn_closeIf : list string :=
  ["!conn.connected || (rw != nil && rw != conn.io)"; "conn.die != nil"; "for !drained"].
Definition inits_client_Conn_closeIf : list string :=
  ["Cmd: DISCONNECTED"; "Time: time.Now()"].
Definition flow_client_Conn_delSTHandlers : list string :=
  ["for{"; "h.Remove"; "}"; "set conn.stRemovers"].
Definition conds_client_Conn_delSTHandlers : list string :=
  [].
Definition flow_client_Conn_dialProxy : list string :=
  ["url.Parse"; "if{"; "return"; "}"; "proxy.FromURL"; "if{"; "return"; "}"; "set conn.proxyDialer"; "if{"; "contextProxyDialer.DialContext"; "return"; "}"; "else{"; "conn.proxyDialer.Dial"; "return"; "}"].
Definition conds_client_Conn_dialProxy : list string :=
  ["err != nil"; "err != nil"; "ok"].
Definition flow_client_Conn_dispatch : list string :=
  ["conn.intHandlers.dispatch"; "go conn.bgHandlers.dispatch"; "conn.fgHandlers.dispatch"].
Definition conds_client_Conn_dispatch : list string :=
  [].
Definition flow_client_Conn_drainIn : list string :=
  ["for{"; "select{"; "case"; "recv conn.in"; "default"; "return"; "}"; "}"].
Definition conds_client_Conn_drainIn : list string :=
  [].
Definition flow_client_Conn_drainOut : list string :=
  ["for{"; "select{"; "case"; "recv conn.out"; "default"; "return"; "}"; "}"].
Definition conds_client_Conn_drainOut : list string :=
  [].
Definition flow_client_Conn_getRequestCapabilities : list string :=
  ["capabilitySet"; "s.Add"; "if{"; "s.Add"; "}"; "s.Add"; "return"].
Definition conds_client_Conn_getRequestCapabilities : list string :=
  ["conn.cfg.Sasl != nil"].
Definition flow_client_Conn_h_001 : list string :=
  ["defer conn.dispatch"; "time.Now"; "conn.Me"; "line.Target"; "line.Text"; "strings.LastIndex"; "if{"; "}"; "parseUserHost"; "if{"; "}"; "if{"; "if{"; "conn.st.NickInfo"; "}"; "conn.st.ReNick"; "if{"; "set conn.cfg.Me"; "}"; "}"; "else{"; "set conn.cfg.Me.Nick"; "if{"; "set conn.cfg.Me.Ident"; "set conn.cfg.Me.Host"; "}"; "}"].
Definition conds_client_Conn_h_001 : list string :=
  ["idx != -1"; "me.Nick != nick"; "conn.st != nil"; "ok"; "n != nil"; "ok"].
Definition inits_client_Conn_h_001 : list string :=
  ["Cmd: CONNECTED"; "Time: time.Now()"].
Definition flow_client_Conn_h_311 : list string :=
  ["line.argslen"; "if{"; "return"; "}"; "conn.st.GetNick"; "conn.Me().Equals"; "conn.Me"; "if{"; "conn.st.NickInfo"; "}"; "else{"; "}"].
Definition conds_client_Conn_h_311 : list string :=
  ["!line.argslen(5)"; "(nk != nil) && !conn.Me().Equals(nk)"].
Definition flow_client_Conn_h_324 : list string :=
  ["line.argslen"; "if{"; "return"; "}"; "conn.st.GetChannel"; "if{"; "conn.st.ChannelModes"; "}"; "else{"; "}"].
Definition conds_client_Conn_h_324 : list string :=
  ["!line.argslen(2)"; "ch != nil"].
Definition flow_client_Conn_h_332 : list string :=
  ["line.argslen"; "if{"; "return"; "}"; "conn.st.GetChannel"; "if{"; "conn.st.Topic"; "}"; "else{"; "}"].
Definition conds_client_Conn_h_332 : list string :=
  ["!line.argslen(2)"; "ch != nil"].
Definition flow_client_Conn_h_352 : list string :=
  ["line.argslen"; "if{"; "return"; "}"; "conn.st.GetNick"; "if{"; "return"; "}"; "conn.Me().Equals"; "conn.Me"; "if{"; "return"; "}"; "strings.SplitN"; "conn.st.NickInfo"; "line.argslen"; "if{"; "return"; "}"; "strings.Index"; "if{"; "conn.st.NickModes"; "}"; "strings.Index"; "if{"; "conn.st.NickModes"; "}"; "strings.Index"; "if{"; "conn.st.NickModes"; "}"].
Definition conds_client_Conn_h_352 : list string :=
  ["!line.argslen(5)"; "nk == nil"; "conn.Me().Equals(nk)"; "!line.argslen(6)"; "idx != -1"; "idx != -1"; "idx != -1"].
Definition flow_client_Conn_h_353 : list string :=
  ["line.argslen"; "if{"; "return"; "}"; "conn.st.GetChannel"; "if{"; "strings.Split"; "for{"; "if{"; "}"; "switch{"; "case"; "case"; "conn.st.GetNick"; "if{"; "conn.st.NewNick"; "}"; "conn.st.IsOn"; "if{"; "conn.st.Associate"; "}"; "switch{"; "case"; "conn.st.ChannelModes"; "case"; "conn.st.ChannelModes"; "case"; "conn.st.ChannelModes"; "case"; "conn.st.ChannelModes"; "case"; "conn.st.ChannelModes"; "}"; "}"; "}"; "}"; "else{"; "}"].
Definition conds_client_Conn_h_353 : list string :=
  ["!line.argslen(2)"; "ch != nil"; "nick == """""; "conn.st.GetNick(nick) == nil"; "!ok"].
Definition flow_client_Conn_h_410 : list string :=
  [].
Definition conds_client_Conn_h_410 : list string :=
  [].
Definition flow_client_Conn_h_433 : list string :=
  ["conn.Me"; "conn.cfg.NewNick"; "conn.Nick"; "line.argslen"; "if{"; "return"; "}"; "if{"; "if{"; "conn.st.ReNick"; "if{"; "set conn.cfg.Me"; "}"; "}"; "else{"; "set conn.cfg.Me.Nick"; "}"; "}"].
Definition conds_client_Conn_h_433 : list string :=
  ["!line.argslen(1)"; "line.Args[1] == me.Nick"; "conn.st != nil"; "n != nil"].
Definition flow_client_Conn_h_671 : list string :=
  ["line.argslen"; "if{"; "return"; "}"; "conn.st.GetNick"; "if{"; "conn.st.NickModes"; "}"; "else{"; "}"].
Definition conds_client_Conn_h_671 : list string :=
  ["!line.argslen(1)"; "nk != nil"].
Definition flow_client_Conn_h_903 : list string :=
  ["conn.Cap"].
Definition conds_client_Conn_h_903 : list string :=
  [].
Definition flow_client_Conn_h_904 : list string :=
  ["conn.Cap"].
Definition conds_client_Conn_h_904 : list string :=
  [].
Definition flow_client_Conn_h_908 : list string :=
  ["conn.Cap"].
Definition conds_client_Conn_h_908 : list string :=
  [].
Definition flow_client_Conn_h_AUTHENTICATE : list string :=
  ["if{"; "return"; "}"; "if{"; "if{"; "base64.StdEncoding.EncodeToString"; "}"; "conn.Authenticate"; "set conn.saslRemainingData"; "return"; "}"; "base64.StdEncoding.DecodeString"; "if{"; "return"; "}"; "conn.cfg.Sasl.Next"; "if{"; "return"; "}"; "base64.StdEncoding.EncodeToString"; "conn.Authenticate"].
Definition conds_client_Conn_h_AUTHENTICATE : list string :=
  ["conn.cfg.Sasl == nil"; "conn.saslRemainingData != nil"; "len(conn.saslRemainingData) > 0"; "err != nil"; "err != nil"].
Definition flow_client_Conn_h_CAP : list string :=
  ["strings.Fields"; "line.Text"; "switch{"; "case"; "conn.negotiateCapabilities"; "case"; "conn.handleCapAck"; "case"; "conn.handleCapNak"; "}"].
Definition conds_client_Conn_h_CAP : list string :=
  [].
Definition flow_client_Conn_h_CTCP : list string :=
  ["if{"; "conn.CtcpReply"; "}"; "else{"; "line.argslen"; "if{"; "conn.CtcpReply"; "}"; "}"].
Definition conds_client_Conn_h_CTCP : list string :=
  ["line.Args[0] == VERSION"; "line.Args[0] == PING && line.argslen(2)"].
Definition flow_client_Conn_h_JOIN : list string :=
  ["conn.st.GetChannel"; "conn.st.GetNick"; "if{"; "conn.Me().Equals"; "conn.Me"; "if{"; "return"; "}"; "conn.st.NewChannel"; "conn.Mode"; "conn.Who"; "}"; "if{"; "conn.st.NewNick"; "conn.st.NickInfo"; "conn.Who"; "}"; "conn.st.Associate"].
Definition conds_client_Conn_h_JOIN : list string :=
  ["ch == nil"; "!conn.Me().Equals(nk)"; "nk == nil"].
Definition flow_client_Conn_h_KICK : list string :=
  ["line.argslen"; "if{"; "return"; "}"; "conn.st.Dissociate"].
Definition conds_client_Conn_h_KICK : list string :=
  ["!line.argslen(1)"].
Definition flow_client_Conn_h_MODE : list string :=
  ["line.argslen"; "if{"; "return"; "}"; "conn.st.GetChannel"; "if{"; "conn.st.ChannelModes"; "}"; "else{"; "conn.st.GetNick"; "if{"; "conn.Me().Equals"; "conn.Me"; "if{"; "return"; "}"; "conn.st.NickModes"; "}"; "else{"; "}"; "}"].
Definition conds_client_Conn_h_MODE : list string :=
  ["!line.argslen(1)"; "ch != nil"; "nk != nil"; "!conn.Me().Equals(nk)"].
Definition flow_client_Conn_h_NICK : list string :=
  ["if{"; "set conn.cfg.Me.Nick"; "}"].
Definition conds_client_Conn_h_NICK : list string :=
  ["conn.st == nil && line.Nick == conn.cfg.Me.Nick"].
Definition flow_client_Conn_h_PART : list string :=
  ["conn.st.Dissociate"].
Definition conds_client_Conn_h_PART : list string :=
  [].
Definition flow_client_Conn_h_PING : list string :=
  ["conn.Pong"].
Definition conds_client_Conn_h_PING : list string :=
  [].
Definition flow_client_Conn_h_QUIT : list string :=
  ["conn.st.DelNick"].
Definition conds_client_Conn_h_QUIT : list string :=
  [].
Definition flow_client_Conn_h_REGISTER : list string :=
  ["if{"; "conn.Cap"; "}"; "if{"; "conn.Pass"; "}"; "conn.Nick"; "conn.User"].
Definition conds_client_Conn_h_REGISTER : list string :=
  ["conn.cfg.EnableCapabilityNegotiation"; "conn.cfg.Pass != """""].
Definition flow_client_Conn_h_STNICK : list string :=
  ["conn.st.ReNick"].
Definition conds_client_Conn_h_STNICK : list string :=
  [].
Definition flow_client_Conn_h_TOPIC : list string :=
  ["line.argslen"; "if{"; "return"; "}"; "conn.st.GetChannel"; "if{"; "conn.st.Topic"; "}"; "else{"; "}"].
Definition conds_client_Conn_h_TOPIC : list string :=
  ["!line.argslen(1)"; "ch != nil"].
Definition flow_client_Conn_handle : list string :=
  ["conn.intHandlers.add"; "return"].
Definition conds_client_Conn_handle : list string :=
  [].
Definition flow_client_Conn_handleCapAck : list string :=
  ["for{"; "conn.currCaps.Add"; "if{"; "conn.cfg.Sasl.Start"; "if{"; "}"; "set conn.saslRemainingData"; "conn.Authenticate"; "}"; "}"; "if{"; "conn.Cap"; "}"].
Definition conds_client_Conn_handleCapAck : list string :=
  ["conn.cfg.Sasl != nil && cap == saslCap"; "err != nil"; "!gotSasl"].
Definition flow_client_Conn_handleCapNak : list string :=
  ["conn.Cap"].
Definition conds_client_Conn_handleCapNak : list string :=
  [].
Definition flow_client_Conn_initialise : list string :=
  ["set conn.io"; "set conn.sock"; "set conn.in"; "set conn.out"; "set conn.die"; "if{"; "conn.st.Wipe"; "}"].
Definition conds_client_Conn_initialise : list string :=
  ["conn.st != nil"].
Definition flow_client_Conn_internalConnect : list string :=
  ["conn.mu.Lock"; "defer conn.mu.Unlock"; "if{"; "return"; "}"; "if{"; "return"; "}"; "conn.initialise"; "hasPort"; "if{"; "if{"; "net.JoinHostPort"; "set conn.cfg.Server"; "}"; "else{"; "net.JoinHostPort"; "set conn.cfg.Server"; "}"; "}"; "if{"; "conn.dialProxy"; "if{"; "return"; "}"; "set conn.sock"; "}"; "else{"; "conn.dialer.DialContext"; "if{"; "set conn.sock"; "}"; "else{"; "return"; "}"; "}"; "if{"; "tls.Client"; "s.Handshake"; "if{"; "return"; "}"; "set conn.sock"; "}"; "conn.postConnect"; "conn.setConnected"; "return"].
Definition conds_client_Conn_internalConnect : list string :=
  ["conn.cfg.Server == """""; "conn.connected"; "!hasPort(conn.cfg.Server)"; "conn.cfg.SSL"; "conn.cfg.Proxy != """""; "err != nil"; "err == nil"; "conn.cfg.SSL"; "err != nil"].
Definition flow_client_Conn_negotiateCapabilities : list string :=
  ["conn.supportedCaps.Add"; "conn.getRequestCapabilities"; "reqCaps.Intersect"; "reqCaps.Size"; "if{"; "conn.Cap"; "reqCaps.Slice"; "}"; "else{"; "conn.Cap"; "}"].
Definition conds_client_Conn_negotiateCapabilities : list string :=
  ["reqCaps.Size() > 0"].
Definition flow_client_Conn_ping : list string :=
  ["defer conn.wg.Done"; "time.NewTicker"; "for{"; "select{"; "case"; "recv tick.C"; "conn.Ping"; "time.Now().UnixNano"; "time.Now"; "case"; "ctx.Done"; "recv ctx.Done()"; "tick.Stop"; "return"; "}"; "}"].
Definition conds_client_Conn_ping : list string :=
  [].
Definition flow_client_Conn_postConnect : list string :=
  ["bufio.NewReadWriter"; "bufio.NewReader"; "bufio.NewWriter"; "set conn.io"; "if{"; "context.WithCancel"; "set conn.die"; "conn.wg.Add"; "go conn.send"; "go conn.recv"; "go conn.runLoop"; "if{"; "conn.wg.Add"; "go conn.ping"; "}"; "go func"; "{"; "ctx.Done"; "recv ctx.Done()"; "conn.closeIf"; "}"; "}"].
Definition conds_client_Conn_postConnect : list string :=
  ["start"; "conn.cfg.PingFreq > 0"].
Definition flow_client_Conn_rateLimit : list string :=
  ["time.Now().Sub"; "time.Now"; "set conn.badness"; "if{"; "set conn.badness"; "}"; "time.Now"; "set conn.lastsent"; "if{"; "return"; "}"; "return"].
Definition conds_client_Conn_rateLimit : list string :=
  ["conn.badness < 0"; "conn.badness > 10*time.Second"].
Definition flow_client_Conn_recv : list string :=
  ["for{"; "rw.ReadString"; "if{"; "if{"; "err.Error"; "}"; "conn.wg.Done"; "conn.closeIf"; "return"; "}"; "strings.Trim"; "ParseLine"; "if{"; "time.Now"; "send conn.in"; "}"; "else{"; "}"; "}"].
Definition conds_client_Conn_recv : list string :=
  ["err != nil"; "err != io.EOF"; "line != nil"].
Definition assigns_client_Conn_recv : list string :=
  ["line.Time = time.Now()"].
Definition flow_client_Conn_runLoop : list string :=
  ["for{"; "select{"; "case"; "recv conn.in"; "conn.dispatch"; "case"; "ctx.Done"; "recv ctx.Done()"; "conn.wg.Done"; "conn.closeIf"; "return"; "}"; "}"].
Definition conds_client_Conn_runLoop : list string :=
  [].
Definition flow_client_Conn_send : list string :=
  ["for{"; "select{"; "case"; "recv conn.out"; "conn.write"; "if{"; "err.Error"; "conn.wg.Done"; "conn.closeIf"; "return"; "}"; "case"; "ctx.Done"; "recv ctx.Done()"; "conn.wg.Done"; "return"; "}"; "}"].
Definition conds_client_Conn_send : list string :=
  ["err != nil"].
Definition flow_client_Conn_setConnected : list string :=
  ["conn.connectedMu.Lock"; "set conn.connected"; "conn.connectedMu.Unlock"].
Definition conds_client_Conn_setConnected : list string :=
  [].
Definition flow_client_Conn_write : list string :=
  ["if{"; "conn.rateLimit"; "if{"; "t.Seconds"; "time.After"; "recv time.After(t)"; "}"; "}"; "conn.io.WriteString"; "if{"; "return"; "}"; "conn.io.Flush"; "if{"; "return"; "}"; "strings.HasPrefix"; "if{"; "}"; "return"].
Definition conds_client_Conn_write : list string :=
  ["!conn.cfg.Flood"; "t != 0"; "err != nil"; "err != nil"; "strings.HasPrefix(line, ""PASS"")"].
Definition flow_client_DefaultNewNick : list string :=
  ["if{"; "return"; "}"; "switch{"; "case"; "case"; "case"; "}"; "return"].
Definition conds_client_DefaultNewNick : list string :=
  ["len(old) == 0"].
Definition flow_client_HandlerFunc_Handle : list string :=
  ["hf"].
Definition conds_client_HandlerFunc_Handle : list string :=
  [].
Definition flow_client_Line_Copy : list string :=
  ["if{"; "for{"; "}"; "}"; "return"].
Definition conds_client_Line_Copy : list string :=
  ["l.Tags != nil"].
Definition assigns_client_Line_Copy : list string :=
  ["nl.Args = make([]string, len(l.Args))"; "nl.Tags = make(map[string]string)"].
Definition flow_client_Line_Public : list string :=
  ["switch{"; "case"; "if{"; "return"; "}"; "switch{"; "case"; "return"; "}"; "case"; "if{"; "return"; "}"; "switch{"; "case"; "return"; "}"; "}"; "return"].
Definition conds_client_Line_Public : list string :=
  ["len(line.Args) < 1 || line.Args[0] == """""; "len(line.Args) < 2 || line.Args[1] == """""].
Definition flow_client_Line_Target : list string :=
  ["switch{"; "case"; "line.Public"; "if{"; "return"; "}"; "case"; "line.Public"; "if{"; "return"; "}"; "return"; "}"; "if{"; "return"; "}"; "return"].
Definition conds_client_Line_Target : list string :=
  ["!line.Public()"; "!line.Public()"; "len(line.Args) > 0"].
Definition flow_client_Line_Text : list string :=
  ["if{"; "return"; "}"; "return"].
Definition conds_client_Line_Text : list string :=
  ["len(line.Args) > 0"].
Definition flow_client_Line_argslen : list string :=
  ["if{"; "fn.Name"; "return"; "}"; "return"].
Definition conds_client_Line_argslen : list string :=
  ["len(line.Args) <= minlen"].
Definition flow_client_NewConfig : list string :=
  ["if{"; "}"; "if{"; "}"; "return"].
Definition conds_client_NewConfig : list string :=
  ["len(args) > 0 && args[0] != """""; "len(args) > 1 && args[1] != """""].
Definition inits_client_NewConfig : list string :=
  ["Me: &state.Nick{Nick: nick}"; "PingFreq: 3 * time.Minute"; "NewNick: DefaultNewNick"; "Recover: (*Conn).LogPanic"; "SplitLen: defaultSplit"; "Timeout: 60 * time.Second"; "EnableCapabilityNegotiation: false"; "Nick: nick"].
Definition assigns_client_NewConfig : list string :=
  ["cfg.Me.Ident = ""goirc"""; "cfg.Me.Ident = args[0]"; "cfg.Me.Name = ""Powered by GoIRC"""; "cfg.Me.Name = args[1]"; "cfg.Version = ""Powered by GoIRC"""; "cfg.QuitMessage = ""GoBye!"""].
Definition flow_client_ParseLine : list string :=
  ["if{"; "return"; "}"; "if{"; "strings.Index"; "if{"; "}"; "else{"; "return"; "}"; "for{"; "strings.Split"; "if{"; "}"; "strings.SplitN"; "tagsReplacer.Replace"; "if{"; "}"; "else{"; "}"; "}"; "}"; "if{"; "return"; "}"; "if{"; "strings.Index"; "if{"; "}"; "else{"; "return"; "}"; "parseUserHost"; "if{"; "}"; "}"; "strings.SplitN"; "strings.Fields"; "if{"; "return"; "}"; "if{"; "}"; "else{"; "}"; "strings.ToUpper"; "if{"; "}"; "strings.HasPrefix"; "strings.HasSuffix"; "if{"; "strings.SplitN"; "strings.Trim"; "if{"; "}"; "strings.ToUpper"; "if{"; "}"; "else{"; "if{"; "}"; "else{"; "}"; "}"; "}"; "return"].
Definition conds_client_ParseLine : list string :=
  ["s == """""; "s[0] == '@'"; "idx != -1"; "tag == """""; "len(pair) < 2"; "s == """""; "s[0] == ':'"; "idx != -1"; "ok"; "len(fields) == 0"; "len(args) > 1"; "len(args) > 1"; "(line.Cmd == PRIVMSG || line.Cmd == NOTICE) && len(line.Args) > 1 && len(line.Args[1]) > 2 && strings.HasPrefix(line.Args[1], ""\001"") && strings.HasSuffix(line.Args[1], ""\001"")"; "len(t) > 1"; "c == ACTION && line.Cmd == PRIVMSG"; "line.Cmd == PRIVMSG"].
Definition inits_client_ParseLine : list string :=
  ["Raw: s"].
Definition assigns_client_ParseLine : list string :=
  ["line.Tags = make(map[string]string)"; "line.Host = line.Src"; "line.Nick = n"; "line.Ident = i"; "line.Host = h"; "line.Cmd = strings.ToUpper(args[0])"; "line.Args = args[1:]"; "line.Cmd = c"; "line.Cmd = CTCP"; "line.Cmd = CTCPREPLY"; "line.Args = append([]string{c}, line.Args...)"].
Definition flow_client_SimpleClient : list string :=
  ["Client"; "NewConfig"; "return"].
Definition conds_client_SimpleClient : list string :=
  [].
Definition flow_client_capSet_Add : list string :=
  ["c.mu.Lock"; "for{"; "strings.HasPrefix"; "if{"; "}"; "else{"; "}"; "}"; "c.mu.Unlock"].
Definition conds_client_capSet_Add : list string :=
  ["strings.HasPrefix(cap, ""-"")"].
Definition flow_client_capSet_Has : list string :=
  ["c.mu.RLock"; "defer c.mu.RUnlock"; "return"].
Definition conds_client_capSet_Has : list string :=
  [].
Definition flow_client_capSet_Intersect : list string :=
  ["c.mu.Lock"; "for{"; "other.Has"; "if{"; "}"; "}"; "c.mu.Unlock"].
Definition conds_client_capSet_Intersect : list string :=
  ["!other.Has(cap)"].
Definition flow_client_capSet_Size : list string :=
  ["c.mu.RLock"; "defer c.mu.RUnlock"; "return"].
Definition conds_client_capSet_Size : list string :=
  [].
Definition flow_client_capSet_Slice : list string :=
  ["c.mu.RLock"; "defer c.mu.RUnlock"; "for{"; "}"; "sort.Strings"; "return"].
Definition conds_client_capSet_Slice : list string :=
  [].
Definition flow_client_capabilitySet : list string :=
  ["return"].
Definition conds_client_capabilitySet : list string :=
  [].
Definition inits_client_capabilitySet : list string :=
  ["caps: make(map[string]bool)"].
Definition flow_client_cutNewLines : list string :=
  ["strings.SplitN"; "strings.SplitN"; "return"].
Definition conds_client_cutNewLines : list string :=
  [].
Definition flow_client_hNode_Handle : list string :=
  ["defer conn.cfg.Recover"; "hn.handler.Handle"].
Definition conds_client_hNode_Handle : list string :=
  [].
Definition flow_client_hNode_Remove : list string :=
  ["hn.set.remove"].
Definition conds_client_hNode_Remove : list string :=
  [].
Definition flow_client_hSet_add : list string :=
  ["hs.Lock"; "defer hs.Unlock"; "strings.ToLower"; "if{"; "}"; "if{"; "}"; "else{"; "}"; "return"].
Definition conds_client_hSet_add : list string :=
  ["!ok"; "!ok"].
Definition inits_client_hSet_add : list string :=
  ["set: hs"; "event: ev"; "handler: h"].
Definition assigns_client_hSet_add : list string :=
  ["l.start = hn"; "hn.prev = l.end"; "l.end.next = hn"; "l.end = hn"].
Definition flow_client_hSet_dispatch : list string :=
  ["strings.ToLower"; "for{"; "hs.getHandlers"; "wg.Add"; "go func"; "{"; "hn.Handle"; "line.Copy"; "wg.Done"; "}"; "}"; "wg.Wait"].
Definition conds_client_hSet_dispatch : list string :=
  [].
Definition flow_client_hSet_getHandlers : list string :=
  ["hs.RLock"; "defer hs.RUnlock"; "if{"; "return"; "}"; "for{"; "}"; "return"].
Definition conds_client_hSet_getHandlers : list string :=
  ["!ok"; "for hn != nil"].
Definition flow_client_hSet_remove : list string :=
  ["hs.Lock"; "defer hs.Unlock"; "if{"; "return"; "}"; "if{"; "}"; "else{"; "}"; "if{"; "}"; "else{"; "}"; "if{"; "}"].
Definition conds_client_hSet_remove : list string :=
  ["!ok"; "hn.next == nil"; "hn.prev == nil"; "l.start == nil || l.end == nil"].
Definition assigns_client_hSet_remove : list string :=
  ["l.end = hn.prev"; "hn.next.prev = hn.prev"; "l.start = hn.next"; "hn.prev.next = hn.next"; "hn.next = nil"; "hn.prev = nil"; "hn.set = nil"].
Definition flow_client_handlerSet : list string :=
  ["return"].
Definition conds_client_handlerSet : list string :=
  [].
Definition inits_client_handlerSet : list string :=
  ["set: make(map[string]*hList)"].
Definition flow_client_hasPort : list string :=
  ["strings.LastIndex"; "strings.LastIndex"; "return"].
Definition conds_client_hasPort : list string :=
  [].
Definition flow_client_indexFragment : list string :=
  ["for{"; "strings.LastIndex"; "if{"; "}"; "}"; "if{"; "return"; "}"; "strings.LastIndex"; "if{"; "return"; "}"; "return"].
Definition conds_client_indexFragment : list string :=
  ["idx > max"; "max > 0"; "idx > 0"].
Definition flow_client_parseUserHost : list string :=
  ["strings.TrimSpace"; "strings.Index"; "strings.Index"; "if{"; "return"; "}"; "return"].
Definition conds_client_parseUserHost : list string :=
  ["uidx == -1 || nidx == -1 || nidx > uidx"].
Definition flow_client_splitArgs : list string :=
  ["for{"; "for{"; "}"; "}"; "return"].
Definition conds_client_splitArgs : list string :=
  ["for i < len(args)"; "for i < len(args) && len(currArg)+len(args[i])+1 < maxLen"].
Definition flow_client_splitMessage : list string :=
  ["if{"; "}"; "for{"; "indexFragment"; "if{"; "}"; "}"; "return"].
Definition conds_client_splitMessage : list string :=
  ["splitLen < 13"; "for len(msg) > splitLen"; "idx < 0"].

Definition chan_sends_client : list (string * string) :=
  [("Conn.Raw", "conn.out"); ("Conn.recv", "conn.in")].
Definition chan_recvs_client : list (string * string) :=
  [("Conn.closeIf", "conn.in"); ("Conn.closeIf", "conn.out"); ("Conn.closeIf", "done"); ("Conn.drainIn", "conn.in"); ("Conn.drainOut", "conn.out"); ("Conn.ping", "tick.C"); ("Conn.ping", "ctx.Done()"); ("Conn.postConnect", "ctx.Done()"); ("Conn.runLoop", "conn.in"); ("Conn.runLoop", "ctx.Done()"); ("Conn.send", "conn.out"); ("Conn.send", "ctx.Done()"); ("Conn.write", "time.After(t)")].
Definition go_stmts_client : list (string * string) :=
  [("Conn.closeIf", "func"); ("Conn.dispatch", "conn.bgHandlers.dispatch"); ("Conn.postConnect", "conn.send"); ("Conn.postConnect", "conn.recv"); ("Conn.postConnect", "conn.runLoop"); ("Conn.postConnect", "conn.ping"); ("Conn.postConnect", "func"); ("hSet.dispatch", "func")].
Definition cfg_uses_client : list (string * string) :=
  [("Client", "Me"); ("Client", "Timeout"); ("Client", "DualStack"); ("Client", "LocalAddr"); ("Client", "Sasl"); ("Client", "EnableCapabilityNegotiation"); ("Conn.ConnectToContext", "Server"); ("Conn.ConnectToContext", "Pass"); ("Conn.Ctcp", "SplitLen"); ("Conn.CtcpReply", "SplitLen"); ("Conn.DisableStateTracking", "Me"); ("Conn.EnableStateTracking", "Me"); ("Conn.Me", "Me"); ("Conn.Notice", "SplitLen"); ("Conn.Privmsg", "SplitLen"); ("Conn.Quit", "QuitMessage"); ("Conn.String", "Server"); ("Conn.dialProxy", "Proxy"); ("Conn.dialProxy", "Server"); ("Conn.getRequestCapabilities", "Sasl"); ("Conn.getRequestCapabilities", "Capabilites"); ("Conn.h_001", "Me"); ("Conn.h_433", "NewNick"); ("Conn.h_433", "Me"); ("Conn.h_AUTHENTICATE", "Sasl"); ("Conn.h_CTCP", "Version"); ("Conn.h_NICK", "Me"); ("Conn.h_REGISTER", "EnableCapabilityNegotiation"); ("Conn.h_REGISTER", "Pass"); ("Conn.h_REGISTER", "Me"); ("Conn.handleCapAck", "Sasl"); ("Conn.internalConnect", "Server"); ("Conn.internalConnect", "SSL"); ("Conn.internalConnect", "Proxy"); ("Conn.internalConnect", "SSLConfig"); ("Conn.ping", "PingFreq"); ("Conn.postConnect", "PingFreq"); ("Conn.write", "Flood"); ("NewConfig", "Me"); ("NewConfig", "Version"); ("NewConfig", "QuitMessage"); ("hNode.Handle", "Recover")].
Definition conn_io_users_client : list string :=
  ["Conn.closeIf"; "Conn.initialise"; "Conn.postConnect"; "Conn.recv"; "Conn.runLoop"; "Conn.send"; "Conn.write"].
Definition conn_write_callers_client : list string :=
  ["Conn.send"].

Definition flow_state_ChanMode_Copy : list string :=
  ["if{"; "return"; "}"; "return"].
Definition conds_state_ChanMode_Copy : list string :=
  ["cm == nil"].
Definition flow_state_ChanMode_Equals : list string :=
  ["reflect.DeepEqual"; "return"].
Definition conds_state_ChanMode_Equals : list string :=
  [].
Definition flow_state_ChanMode_String : list string :=
  ["if{"; "return"; "}"; "reflect.Indirect"; "reflect.ValueOf"; "v.Type"; "for{"; "v.NumField"; "v.Field"; "f.Kind"; "switch{"; "case"; "f.Bool"; "if{"; "t.Field"; "}"; "case"; "f.String"; "if{"; "t.Field"; "f.String"; "}"; "case"; "f.Int"; "if{"; "t.Field"; "strconv.FormatInt"; "f.Int"; "}"; "}"; "}"; "for{"; "if{"; "}"; "}"; "if{"; "}"; "return"].
Definition conds_state_ChanMode_String : list string :=
  ["cm == nil"; "for i < v.NumField()"; "f.Bool()"; "f.String() != """""; "f.Int() != 0"; "s != """""; "str == ""+"""].
Definition flow_state_ChanPrivs_Copy : list string :=
  ["if{"; "return"; "}"; "return"].
Definition conds_state_ChanPrivs_Copy : list string :=
  ["cp == nil"].
Definition flow_state_ChanPrivs_Equals : list string :=
  ["reflect.DeepEqual"; "return"].
Definition conds_state_ChanPrivs_Equals : list string :=
  [].
Definition flow_state_ChanPrivs_String : list string :=
  ["if{"; "return"; "}"; "reflect.Indirect"; "reflect.ValueOf"; "v.Type"; "for{"; "v.NumField"; "v.Field"; "f.Kind"; "switch{"; "case"; "f.Bool"; "if{"; "t.Field"; "}"; "}"; "}"; "if{"; "}"; "return"].
Definition conds_state_ChanPrivs_String : list string :=
  ["cp == nil"; "for i < v.NumField()"; "f.Bool()"; "str == ""+"""].
Definition flow_state_Channel_Equals : list string :=
  ["reflect.DeepEqual"; "return"].
Definition conds_state_Channel_Equals : list string :=
  [].
Definition flow_state_Channel_IsOn : list string :=
  ["return"].
Definition conds_state_Channel_IsOn : list string :=
  [].
Definition flow_state_Channel_String : list string :=
  ["ch.Modes.String"; "for{"; "cp.String"; "}"; "return"].
Definition conds_state_Channel_String : list string :=
  [].
Definition flow_state_MockTracker_Associate : list string :=
  ["_m.ctrl.Call"; "return"].
Definition conds_state_MockTracker_Associate : list string :=
  [].
Definition flow_state_MockTracker_ChannelModes : list string :=
  ["for{"; "}"; "_m.ctrl.Call"; "return"].
Definition conds_state_MockTracker_ChannelModes : list string :=
  [].
Definition flow_state_MockTracker_DelChannel : list string :=
  ["_m.ctrl.Call"; "return"].
Definition conds_state_MockTracker_DelChannel : list string :=
  [].
Definition flow_state_MockTracker_DelNick : list string :=
  ["_m.ctrl.Call"; "return"].
Definition conds_state_MockTracker_DelNick : list string :=
  [].
Definition flow_state_MockTracker_Dissociate : list string :=
  ["_m.ctrl.Call"].
Definition conds_state_MockTracker_Dissociate : list string :=
  [].
Definition flow_state_MockTracker_EXPECT : list string :=
  ["return"].
Definition conds_state_MockTracker_EXPECT : list string :=
  [].
Definition flow_state_MockTracker_GetChannel : list string :=
  ["_m.ctrl.Call"; "return"].
Definition conds_state_MockTracker_GetChannel : list string :=
  [].
Definition flow_state_MockTracker_GetNick : list string :=
  ["_m.ctrl.Call"; "return"].
Definition conds_state_MockTracker_GetNick : list string :=
  [].
Definition flow_state_MockTracker_IsOn : list string :=
  ["_m.ctrl.Call"; "return"].
Definition conds_state_MockTracker_IsOn : list string :=
  [].
Definition flow_state_MockTracker_Me : list string :=
  ["_m.ctrl.Call"; "return"].
Definition conds_state_MockTracker_Me : list string :=
  [].
Definition flow_state_MockTracker_NewChannel : list string :=
  ["_m.ctrl.Call"; "return"].
Definition conds_state_MockTracker_NewChannel : list string :=
  [].
Definition flow_state_MockTracker_NewNick : list string :=
  ["_m.ctrl.Call"; "return"].
Definition conds_state_MockTracker_NewNick : list string :=
  [].
Definition flow_state_MockTracker_NickInfo : list string :=
  ["_m.ctrl.Call"; "return"].
Definition conds_state_MockTracker_NickInfo : list string :=
  [].
Definition flow_state_MockTracker_NickModes : list string :=
  ["_m.ctrl.Call"; "return"].
Definition conds_state_MockTracker_NickModes : list string :=
  [].
Definition flow_state_MockTracker_ReNick : list string :=
  ["_m.ctrl.Call"; "return"].
Definition conds_state_MockTracker_ReNick : list string :=
  [].
Definition flow_state_MockTracker_String : list string :=
  ["_m.ctrl.Call"; "return"].
Definition conds_state_MockTracker_String : list string :=
  [].
Definition flow_state_MockTracker_Topic : list string :=
  ["_m.ctrl.Call"; "return"].
Definition conds_state_MockTracker_Topic : list string :=
  [].
Definition flow_state_MockTracker_Wipe : list string :=
  ["_m.ctrl.Call"].
Definition conds_state_MockTracker_Wipe : list string :=
  [].
Definition flow_state_NewMockTracker : list string :=
  ["return"].
Definition conds_state_NewMockTracker : list string :=
  [].
Definition inits_state_NewMockTracker : list string :=
  ["ctrl: ctrl"].
Definition assigns_state_NewMockTracker : list string :=
  ["mock.recorder = &_MockTrackerRecorder{mock}"].
Definition flow_state_NewTracker : list string :=
  ["newNick"; "return"].
Definition conds_state_NewTracker : list string :=
  [].
Definition inits_state_NewTracker : list string :=
  ["chans: make(map[string]*channel)"; "nicks: make(map[string]*nick)"].
Definition assigns_state_NewTracker : list string :=
  ["st.me = newNick(mynick)"].
Definition flow_state_Nick_Equals : list string :=
  ["reflect.DeepEqual"; "return"].
Definition conds_state_Nick_Equals : list string :=
  [].
Definition flow_state_Nick_IsOn : list string :=
  ["return"].
Definition conds_state_Nick_IsOn : list string :=
  [].
Definition flow_state_Nick_String : list string :=
  ["nk.Modes.String"; "for{"; "cp.String"; "}"; "return"].
Definition conds_state_Nick_String : list string :=
  [].
Definition flow_state_NickMode_Copy : list string :=
  ["if{"; "return"; "}"; "return"].
Definition conds_state_NickMode_Copy : list string :=
  ["nm == nil"].
Definition flow_state_NickMode_Equals : list string :=
  ["reflect.DeepEqual"; "return"].
Definition conds_state_NickMode_Equals : list string :=
  [].
Definition flow_state_NickMode_String : list string :=
  ["if{"; "return"; "}"; "reflect.Indirect"; "reflect.ValueOf"; "v.Type"; "for{"; "v.NumField"; "v.Field"; "f.Kind"; "switch{"; "case"; "f.Bool"; "if{"; "t.Field"; "}"; "}"; "}"; "if{"; "}"; "return"].
Definition conds_state_NickMode_String : list string :=
  ["nm == nil"; "for i < v.NumField()"; "f.Bool()"; "str == ""+"""].
Definition flow_state__MockTrackerRecorder_Associate : list string :=
  ["_mr.mock.ctrl.RecordCall"; "return"].
Definition conds_state__MockTrackerRecorder_Associate : list string :=
  [].
Definition flow_state__MockTrackerRecorder_ChannelModes : list string :=
  ["_mr.mock.ctrl.RecordCall"; "return"].
Definition conds_state__MockTrackerRecorder_ChannelModes : list string :=
  [].
Definition flow_state__MockTrackerRecorder_DelChannel : list string :=
  ["_mr.mock.ctrl.RecordCall"; "return"].
Definition conds_state__MockTrackerRecorder_DelChannel : list string :=
  [].
Definition flow_state__MockTrackerRecorder_DelNick : list string :=
  ["_mr.mock.ctrl.RecordCall"; "return"].
Definition conds_state__MockTrackerRecorder_DelNick : list string :=
  [].
Definition flow_state__MockTrackerRecorder_Dissociate : list string :=
  ["_mr.mock.ctrl.RecordCall"; "return"].
Definition conds_state__MockTrackerRecorder_Dissociate : list string :=
  [].
Definition flow_state__MockTrackerRecorder_GetChannel : list string :=
  ["_mr.mock.ctrl.RecordCall"; "return"].
Definition conds_state__MockTrackerRecorder_GetChannel : list string :=
  [].
Definition flow_state__MockTrackerRecorder_GetNick : list string :=
  ["_mr.mock.ctrl.RecordCall"; "return"].
Definition conds_state__MockTrackerRecorder_GetNick : list string :=
  [].
Definition flow_state__MockTrackerRecorder_IsOn : list string :=
  ["_mr.mock.ctrl.RecordCall"; "return"].
Definition conds_state__MockTrackerRecorder_IsOn : list string :=
  [].
Definition flow_state__MockTrackerRecorder_Me : list string :=
  ["_mr.mock.ctrl.RecordCall"; "return"].
Definition conds_state__MockTrackerRecorder_Me : list string :=
  [].
Definition flow_state__MockTrackerRecorder_NewChannel : list string :=
  ["_mr.mock.ctrl.RecordCall"; "return"].
Definition conds_state__MockTrackerRecorder_NewChannel : list string :=
  [].
Definition flow_state__MockTrackerRecorder_NewNick : list string :=
  ["_mr.mock.ctrl.RecordCall"; "return"].
Definition conds_state__MockTrackerRecorder_NewNick : list string :=
  [].
Definition flow_state__MockTrackerRecorder_NickInfo : list string :=
  ["_mr.mock.ctrl.RecordCall"; "return"].
Definition conds_state__MockTrackerRecorder_NickInfo : list string :=
  [].
Definition flow_state__MockTrackerRecorder_NickModes : list string :=
  ["_mr.mock.ctrl.RecordCall"; "return"].
Definition conds_state__MockTrackerRecorder_NickModes : list string :=
  [].
Definition flow_state__MockTrackerRecorder_ReNick : list string :=
  ["_mr.mock.ctrl.RecordCall"; "return"].
Definition conds_state__MockTrackerRecorder_ReNick : list string :=
  [].
Definition flow_state__MockTrackerRecorder_String : list string :=
  ["_mr.mock.ctrl.RecordCall"; "return"].
Definition conds_state__MockTrackerRecorder_String : list string :=
  [].
Definition flow_state__MockTrackerRecorder_Topic : list string :=
  ["_mr.mock.ctrl.RecordCall"; "return"].
Definition conds_state__MockTrackerRecorder_Topic : list string :=
  [].
Definition flow_state__MockTrackerRecorder_Wipe : list string :=
  ["_mr.mock.ctrl.RecordCall"; "return"].
Definition conds_state__MockTrackerRecorder_Wipe : list string :=
  [].
Definition flow_state_channel_Channel : list string :=
  ["ch.modes.Copy"; "for{"; "cp.Copy"; "}"; "return"].
Definition conds_state_channel_Channel : list string :=
  [].
Definition inits_state_channel_Channel : list string :=
  ["Name: ch.name"; "Topic: ch.topic"; "Modes: ch.modes.Copy()"; "Nicks: make(map[string]*ChanPrivs)"].
Definition flow_state_channel_String : list string :=
  ["ch.Channel().String"; "ch.Channel"; "return"].
Definition conds_state_channel_String : list string :=
  [].
Definition flow_state_channel_addNick : list string :=
  ["if{"; "}"; "else{"; "}"].
Definition conds_state_channel_addNick : list string :=
  ["!ok"].
Definition flow_state_channel_delNick : list string :=
  ["if{"; "}"; "else{"; "}"].
Definition conds_state_channel_delNick : list string :=
  ["ok"].
Definition flow_state_channel_isOn : list string :=
  ["cp.Copy"; "return"].
Definition conds_state_channel_isOn : list string :=
  [].
Definition flow_state_channel_parseModes : list string :=
  ["for{"; "switch{"; "case"; "case"; "case"; "case"; "case"; "case"; "case"; "case"; "case"; "case"; "case"; "case"; "case"; "if{"; "}"; "else{"; "if{"; "}"; "else{"; "}"; "}"; "case"; "if{"; "strconv.Atoi"; "}"; "else{"; "if{"; "}"; "else{"; "}"; "}"; "case"; "if{"; "}"; "case"; "if{"; "if{"; "switch{"; "case"; "case"; "case"; "case"; "case"; "}"; "}"; "else{"; "}"; "}"; "else{"; "}"; "case"; "}"; "}"].
Definition conds_state_channel_parseModes : list string :=
  ["for i < len(modes)"; "modeop && len(modeargs) != 0"; "!modeop"; "modeop && len(modeargs) != 0"; "!modeop"; "len(modeargs) != 0"; "len(modeargs) != 0"; "ok"].
Definition assigns_state_channel_parseModes : list string :=
  ["ch.modes.InviteOnly = modeop"; "ch.modes.Moderated = modeop"; "ch.modes.NoExternalMsg = modeop"; "ch.modes.Private = modeop"; "ch.modes.Registered = modeop"; "ch.modes.Secret = modeop"; "ch.modes.ProtectedTopic = modeop"; "ch.modes.SSLOnly = modeop"; "ch.modes.AllSSL = modeop"; "ch.modes.OperOnly = modeop"; "ch.modes.Key = """""; "ch.modes.Limit = 0"; "cp.Owner = modeop"; "cp.Admin = modeop"; "cp.Op = modeop"; "cp.HalfOp = modeop"; "cp.Voice = modeop"].
Definition flow_state_init : list string :=
  ["for{"; "}"].
Definition conds_state_init : list string :=
  [].
Definition flow_state_newChannel : list string :=
  ["return"].
Definition conds_state_newChannel : list string :=
  [].
Definition inits_state_newChannel : list string :=
  ["name: name"; "modes: new(ChanMode)"; "nicks: make(map[*nick]*ChanPrivs)"; "lookup: make(map[string]*nick)"].
Definition flow_state_newNick : list string :=
  ["return"].
Definition conds_state_newNick : list string :=
  [].
Definition inits_state_newNick : list string :=
  ["nick: n"; "modes: new(NickMode)"; "chans: make(map[*channel]*ChanPrivs)"; "lookup: make(map[string]*channel)"].
Definition flow_state_nick_Nick : list string :=
  ["nk.modes.Copy"; "for{"; "cp.Copy"; "}"; "return"].
Definition conds_state_nick_Nick : list string :=
  [].
Definition inits_state_nick_Nick : list string :=
  ["Nick: nk.nick"; "Ident: nk.ident"; "Host: nk.host"; "Name: nk.name"; "Modes: nk.modes.Copy()"; "Channels: make(map[string]*ChanPrivs, len(nk.chans))"].
Definition flow_state_nick_String : list string :=
  ["nk.Nick().String"; "nk.Nick"; "return"].
Definition conds_state_nick_String : list string :=
  [].
Definition flow_state_nick_addChannel : list string :=
  ["if{"; "}"; "else{"; "}"].
Definition conds_state_nick_addChannel : list string :=
  ["!ok"].
Definition flow_state_nick_delChannel : list string :=
  ["if{"; "}"; "else{"; "}"].
Definition conds_state_nick_delChannel : list string :=
  ["ok"].
Definition flow_state_nick_isOn : list string :=
  ["cp.Copy"; "return"].
Definition conds_state_nick_isOn : list string :=
  [].
Definition flow_state_nick_parseModes : list string :=
  ["for{"; "switch{"; "case"; "case"; "case"; "case"; "case"; "case"; "case"; "case"; "case"; "}"; "}"].
Definition conds_state_nick_parseModes : list string :=
  ["for i < len(modes)"].
Definition assigns_state_nick_parseModes : list string :=
  ["nk.modes.Bot = modeop"; "nk.modes.Invisible = modeop"; "nk.modes.Oper = modeop"; "nk.modes.WallOps = modeop"; "nk.modes.HiddenHost = modeop"; "nk.modes.SSL = modeop"].
Definition flow_state_stateTracker_Associate : list string :=
  ["st.mu.Lock"; "defer st.mu.Unlock"; "if{"; "return"; "}"; "else{"; "if{"; "return"; "}"; "else{"; "nk.isOn"; "if{"; "return"; "}"; "}"; "}"; "ch.addNick"; "nk.addChannel"; "cp.Copy"; "return"].
Definition conds_state_stateTracker_Associate : list string :=
  ["!cok"; "!nok"; "ok"].
Definition flow_state_stateTracker_ChannelModes : list string :=
  ["st.mu.Lock"; "defer st.mu.Unlock"; "if{"; "return"; "}"; "ch.parseModes"; "ch.Channel"; "return"].
Definition conds_state_stateTracker_ChannelModes : list string :=
  ["!ok"].
Definition flow_state_stateTracker_DelChannel : list string :=
  ["st.mu.Lock"; "defer st.mu.Unlock"; "if{"; "st.delChannel"; "ch.Channel"; "return"; "}"; "return"].
Definition conds_state_stateTracker_DelChannel : list string :=
  ["ok"].
Definition flow_state_stateTracker_DelNick : list string :=
  ["st.mu.Lock"; "defer st.mu.Unlock"; "if{"; "if{"; "return"; "}"; "st.delNick"; "nk.Nick"; "return"; "}"; "return"].
Definition conds_state_stateTracker_DelNick : list string :=
  ["ok"; "nk == st.me"].
Definition flow_state_stateTracker_Dissociate : list string :=
  ["st.mu.Lock"; "defer st.mu.Unlock"; "if{"; "}"; "else{"; "if{"; "}"; "else{"; "nk.isOn"; "if{"; "}"; "else{"; "if{"; "st.delChannel"; "}"; "else{"; "ch.delNick"; "nk.delChannel"; "if{"; "st.delNick"; "}"; "}"; "}"; "}"; "}"].
Definition conds_state_stateTracker_Dissociate : list string :=
  ["!cok"; "!nok"; "!ok"; "nk == st.me"; "len(nk.chans) == 0"].
Definition flow_state_stateTracker_GetChannel : list string :=
  ["st.mu.Lock"; "defer st.mu.Unlock"; "if{"; "ch.Channel"; "return"; "}"; "return"].
Definition conds_state_stateTracker_GetChannel : list string :=
  ["ok"].
Definition flow_state_stateTracker_GetNick : list string :=
  ["st.mu.Lock"; "defer st.mu.Unlock"; "if{"; "nk.Nick"; "return"; "}"; "return"].
Definition conds_state_stateTracker_GetNick : list string :=
  ["ok"].
Definition flow_state_stateTracker_IsOn : list string :=
  ["st.mu.Lock"; "defer st.mu.Unlock"; "if{"; "nk.isOn"; "return"; "}"; "return"].
Definition conds_state_stateTracker_IsOn : list string :=
  ["nok && cok"].
Definition flow_state_stateTracker_Me : list string :=
  ["st.mu.Lock"; "defer st.mu.Unlock"; "st.me.Nick"; "return"].
Definition conds_state_stateTracker_Me : list string :=
  [].
Definition flow_state_stateTracker_NewChannel : list string :=
  ["if{"; "return"; "}"; "st.mu.Lock"; "defer st.mu.Unlock"; "if{"; "return"; "}"; "newChannel"; "st.chans[c].Channel"; "return"].
Definition conds_state_stateTracker_NewChannel : list string :=
  ["c == """""; "ok"].
Definition flow_state_stateTracker_NewNick : list string :=
  ["if{"; "return"; "}"; "st.mu.Lock"; "defer st.mu.Unlock"; "if{"; "return"; "}"; "newNick"; "st.nicks[n].Nick"; "return"].
Definition conds_state_stateTracker_NewNick : list string :=
  ["n == """""; "ok"].
Definition flow_state_stateTracker_NickInfo : list string :=
  ["st.mu.Lock"; "defer st.mu.Unlock"; "if{"; "return"; "}"; "nk.Nick"; "return"].
Definition conds_state_stateTracker_NickInfo : list string :=
  ["!ok"].
Definition assigns_state_stateTracker_NickInfo : list string :=
  ["nk.ident = ident"; "nk.host = host"; "nk.name = name"].
Definition flow_state_stateTracker_NickModes : list string :=
  ["st.mu.Lock"; "defer st.mu.Unlock"; "if{"; "return"; "}"; "nk.parseModes"; "nk.Nick"; "return"].
Definition conds_state_stateTracker_NickModes : list string :=
  ["!ok"].
Definition flow_state_stateTracker_ReNick : list string :=
  ["st.mu.Lock"; "defer st.mu.Unlock"; "if{"; "return"; "}"; "if{"; "return"; "}"; "for{"; "}"; "nk.Nick"; "return"].
Definition conds_state_stateTracker_ReNick : list string :=
  ["!ok"; "ok"].
Definition assigns_state_stateTracker_ReNick : list string :=
  ["nk.nick = neu"].
Definition flow_state_stateTracker_String : list string :=
  ["st.mu.Lock"; "defer st.mu.Unlock"; "for{"; "ch.String"; "}"; "for{"; "if{"; "n.String"; "}"; "}"; "return"].
Definition conds_state_stateTracker_String : list string :=
  ["n != st.me"].
Definition flow_state_stateTracker_Topic : list string :=
  ["st.mu.Lock"; "defer st.mu.Unlock"; "if{"; "return"; "}"; "ch.Channel"; "return"].
Definition conds_state_stateTracker_Topic : list string :=
  ["!ok"].
Definition assigns_state_stateTracker_Topic : list string :=
  ["ch.topic = topic"].
Definition flow_state_stateTracker_Wipe : list string :=
  ["st.mu.Lock"; "defer st.mu.Unlock"; "for{"; "st.delChannel"; "}"].
Definition conds_state_stateTracker_Wipe : list string :=
  [].
Definition flow_state_stateTracker_delChannel : list string :=
  ["for{"; "ch.delNick"; "nk.delChannel"; "if{"; "st.delNick"; "}"; "}"].
Definition conds_state_stateTracker_delChannel : list string :=
  ["len(nk.chans) == 0 && nk != st.me"].
Definition flow_state_stateTracker_delNick : list string :=
  ["if{"; "return"; "}"; "for{"; "nk.delChannel"; "ch.delNick"; "if{"; "}"; "}"].
Definition conds_state_stateTracker_delNick : list string :=
  ["nk == st.me"; "len(ch.nicks) == 0"].

Definition chan_sends_state : list (string * string) :=
  [].
Definition chan_recvs_state : list (string * string) :=
  [].
Definition go_stmts_state : list (string * string) :=
  [].
Definition cfg_uses_state : list (string * string) :=
  [].
Definition conn_io_users_state : list string :=
  [].
Definition conn_write_callers_state : list string :=
  [].

Definition log_calls_client : list (string * string * string * list string) :=
  [("Client", "Error", "irc.Client(): Cannot resolve local address %s: %s", ["cfg.LocalAddr"; "err"]);
   ("Client", "Warn", "Enabling capability negotiation as it's required for SASL", []);
   ("Conn.internalConnect", "Info", "irc.Connect(): Connecting via proxy %q: %v", ["conn.cfg.Proxy"; "err"]);
   ("Conn.internalConnect", "Info", "irc.Connect(): Connecting to %s.", ["conn.cfg.Server"]);
   ("Conn.internalConnect", "Info", "irc.Connect(): Performing SSL handshake.", []);
   ("Conn.dialProxy", "Info", "irc.Connect(): Connecting to %s.", ["conn.cfg.Server"]);
   ("Conn.dialProxy", "Warn", "Dialer for proxy does not support context, please implement DialContext", []);
   ("Conn.dialProxy", "Info", "irc.Connect(): Connecting to %s.", ["conn.cfg.Server"]);
   ("Conn.send", "Error", "irc.send(): %s", ["err.Error()"]);
   ("Conn.recv", "Error", "irc.recv(): %s", ["err.Error()"]);
   ("Conn.recv", "Debug", "<- %s", ["s"]);
   ("Conn.recv", "Warn", "irc.recv(): problems parsing line:\x0a  %s", ["s"]);
   ("Conn.write", "Info", "irc.rateLimit(): Flood! Sleeping for %.2f secs.", ["t.Seconds()"]);
   ("Conn.write", "Debug", "-> %s", ["line"]);
   ("Conn.closeIf", "Info", "irc.Close(): Disconnected from server.", []);
   ("hSet.remove", "Error", "Removing node for unknown event '%s'", ["hn.event"]);
   ("Conn.LogPanic", "Error", "%s:%d: panic: %v", ["f"; "l"; "err"]);
   ("Conn.handleCapAck", "Warn", "SASL authentication failed: %v", ["err"]);
   ("Conn.h_410", "Warn", "Invalid cap subcommand: ", ["line.Args[1]"]);
   ("Conn.h_AUTHENTICATE", "Error", "Failed to decode SASL challenge: %v", ["err"]);
   ("Conn.h_AUTHENTICATE", "Error", "Failed to generate response for SASL challenge: %v", ["err"]);
   ("Conn.h_904", "Warn", "SASL authentication failed", []);
   ("Conn.h_908", "Warn", "SASL mechanism not supported, supported mechanisms are: %v", ["line.Args[1]"]);
   ("Conn.h_001", "Warn", "Server changed our nick on connect: old=%q new=%q", ["me.Nick"; "nick"]);
   ("Line.argslen", "Warn", "%s: too few arguments: %s", ["fn.Name()"; "strings.Join(line.Args, "" "")"]);
   ("Conn.h_JOIN", "Warn", "irc.JOIN(): JOIN to unknown channel %s received from (non-me) nick %s", ["line.Args[0]"; "line.Nick"]);
   ("Conn.h_MODE", "Warn", "irc.MODE(): recieved MODE %s for (non-me) nick %s", ["line.Args[1]"; "line.Args[0]"]);
   ("Conn.h_MODE", "Warn", "irc.MODE(): not sure what to do with MODE %s", ["strings.Join(line.Args, "" "")"]);
   ("Conn.h_TOPIC", "Warn", "irc.TOPIC(): topic change on unknown channel %s", ["line.Args[0]"]);
   ("Conn.h_311", "Warn", "irc.311(): received WHOIS info for unknown nick %s", ["line.Args[1]"]);
   ("Conn.h_324", "Warn", "irc.324(): received MODE settings for unknown channel %s", ["line.Args[1]"]);
   ("Conn.h_332", "Warn", "irc.332(): received TOPIC value for unknown channel %s", ["line.Args[1]"]);
   ("Conn.h_352", "Warn", "irc.352(): received WHO reply for unknown nick %s", ["line.Args[5]"]);
   ("Conn.h_353", "Warn", "irc.353(): received NAMES list for unknown channel %s", ["line.Args[2]"]);
   ("Conn.h_671", "Warn", "irc.671(): received WHOIS SSL info for unknown nick %s", ["line.Args[1]"])].

Definition log_calls_state : list (string * string * string * list string) :=
  [("channel.addNick", "Warn", "Channel.addNick(): %s already on %s.", ["nk.nick"; "ch.name"]);
   ("channel.delNick", "Warn", "Channel.delNick(): %s not on %s.", ["nk.nick"; "ch.name"]);
   ("channel.parseModes", "Warn", "Channel.ParseModes(): not enough arguments to process MODE %s %s%c", ["ch.name"; "modestr"; "m"]);
   ("channel.parseModes", "Warn", "Channel.ParseModes(): not enough arguments to process MODE %s %s%c", ["ch.name"; "modestr"; "m"]);
   ("channel.parseModes", "Warn", "Channel.ParseModes(): untracked nick %s received MODE on channel %s", ["modeargs[0]"; "ch.name"]);
   ("channel.parseModes", "Warn", "Channel.ParseModes(): not enough arguments to process MODE %s %s%c", ["ch.name"; "modestr"; "m"]);
   ("channel.parseModes", "Info", "Channel.ParseModes(): unknown mode char %c", ["m"]);
   ("nick.addChannel", "Warn", "Nick.addChannel(): %s already on %s.", ["nk.nick"; "ch.name"]);
   ("nick.delChannel", "Warn", "Nick.delChannel(): %s not on %s.", ["nk.nick"; "ch.name"]);
   ("nick.parseModes", "Info", "Nick.ParseModes(): unknown mode char %c", ["m"]);
   ("stateTracker.NewNick", "Warn", "Tracker.NewNick(): Not tracking empty nick.", []);
   ("stateTracker.NewNick", "Warn", "Tracker.NewNick(): %s already tracked.", ["n"]);
   ("stateTracker.ReNick", "Warn", "Tracker.ReNick(): %s not tracked.", ["old"]);
   ("stateTracker.ReNick", "Warn", "Tracker.ReNick(): %s already exists.", ["neu"]);
   ("stateTracker.DelNick", "Warn", "Tracker.DelNick(): won't delete myself.", []);
   ("stateTracker.DelNick", "Warn", "Tracker.DelNick(): %s not tracked.", ["n"]);
   ("stateTracker.delNick", "Error", "Tracker.DelNick(): TRYING TO DELETE ME :-(", []);
   ("stateTracker.delNick", "Error", "Tracker.delNick(): deleting nick %s emptied channel %s, this shouldn't happen!", ["nk.nick"; "ch.name"]);
   ("stateTracker.NewChannel", "Warn", "Tracker.NewChannel(): Not tracking empty channel.", []);
   ("stateTracker.NewChannel", "Warn", "Tracker.NewChannel(): %s already tracked.", ["c"]);
   ("stateTracker.DelChannel", "Warn", "Tracker.DelChannel(): %s not tracked.", ["c"]);
   ("stateTracker.Associate", "Error", "Tracker.Associate(): channel %s not found in internal state.", ["c"]);
   ("stateTracker.Associate", "Error", "Tracker.Associate(): nick %s not found in internal state.", ["n"]);
   ("stateTracker.Associate", "Warn", "Tracker.Associate(): %s already on %s.", ["nk"; "ch"]);
   ("stateTracker.Dissociate", "Error", "Tracker.Dissociate(): channel %s not found in internal state.", ["c"]);
   ("stateTracker.Dissociate", "Error", "Tracker.Dissociate(): nick %s not found in internal state.", ["n"]);
   ("stateTracker.Dissociate", "Warn", "Tracker.Dissociate(): %s not on %s.", ["nk.nick"; "ch.name"])].

Definition newconfig_defaults : list (string * string) :=
  [("Me", "&state.Nick{Nick: nick}"); ("PingFreq", "3 * time.Minute"); ("NewNick", "DefaultNewNick"); ("Recover", "(*Conn).LogPanic"); ("SplitLen", "defaultSplit"); ("Timeout", "60 * time.Second"); ("EnableCapabilityNegotiation", "false")].

Definition var_client_intHandlers : list string :=
  ["""REGISTER"""; "(*Conn).h_REGISTER"; """001"""; "(*Conn).h_001"; """433"""; "(*Conn).h_433"; """CTCP"""; "(*Conn).h_CTCP"; """NICK"""; "(*Conn).h_NICK"; """PING"""; "(*Conn).h_PING"; """CAP"""; "(*Conn).h_CAP"; """410"""; "(*Conn).h_410"; """AUTHENTICATE"""; "(*Conn).h_AUTHENTICATE"; """903"""; "(*Conn).h_903"; """904"""; "(*Conn).h_904"; """908"""; "(*Conn).h_908"].
Definition var_client_defaultCaps : list string :=
  [].
Definition var_client_tagsReplacer : list string :=
  ["strings.NewReplacer"; """\\:"""; """;"""; """\\s"""; """ """; """\\\\"""; """\\"""; """\\r"""; """\r"""; """\\n"""; """\n"""].
Definition var_client_stHandlers : list string :=
  ["""JOIN"""; "(*Conn).h_JOIN"; """KICK"""; "(*Conn).h_KICK"; """MODE"""; "(*Conn).h_MODE"; """NICK"""; "(*Conn).h_STNICK"; """PART"""; "(*Conn).h_PART"; """QUIT"""; "(*Conn).h_QUIT"; """TOPIC"""; "(*Conn).h_TOPIC"; """311"""; "(*Conn).h_311"; """324"""; "(*Conn).h_324"; """332"""; "(*Conn).h_332"; """352"""; "(*Conn).h_352"; """353"""; "(*Conn).h_353"; """671"""; "(*Conn).h_671"].
Definition var_state_StringToChanMode : list string :=
  [].
Definition var_state_ChanModeToString : list string :=
  ["""Private"""; """p"""; """Secret"""; """s"""; """ProtectedTopic"""; """t"""; """NoExternalMsg"""; """n"""; """Moderated"""; """m"""; """InviteOnly"""; """i"""; """OperOnly"""; """O"""; """SSLOnly"""; """z"""; """Registered"""; """r"""; """AllSSL"""; """Z"""; """Key"""; """k"""; """Limit"""; """l"""].
Definition var_state_StringToChanPriv : list string :=
  [].
Definition var_state_ChanPrivToString : list string :=
  ["""Owner"""; """q"""; """Admin"""; """a"""; """Op"""; """o"""; """HalfOp"""; """h"""; """Voice"""; """v"""].
Definition var_state_ModeCharToChanPriv : list string :=
  [].
Definition var_state_ChanPrivToModeChar : list string :=
  ["""Owner"""; "126"; """Admin"""; "38"; """Op"""; "64"; """HalfOp"""; "37"; """Voice"""; "43"].
Definition var_state_StringToNickMode : list string :=
  [].
Definition var_state_NickModeToString : list string :=
  ["""Bot"""; """B"""; """Invisible"""; """i"""; """Oper"""; """o"""; """WallOps"""; """w"""; """HiddenHost"""; """x"""; """SSL"""; """z"""].
