(* GENERATED from the Go source by /verif/translator on every check run — do not edit. *)
From Coq Require Import List ZArith NArith Bool.
Import ListNotations.

Inductive fact (A : Type) := Known (a : A) | Unrecognised.
Arguments Known {A} a.
Arguments Unrecognised {A}.

