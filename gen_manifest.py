#!/usr/bin/env python3
"""Regenerates MANIFEST.json from checks/*.json (+ checks/_not_applicable.json) and validates it."""
import glob, json, os, subprocess
ROOT = os.path.dirname(os.path.abspath(__file__))
props = [json.loads(l)['id'] for l in open(os.path.join(ROOT, 'properties.jsonl'))]
checks, claimed = [], set()
for pid in props:
    p = os.path.join(ROOT, 'checks', pid + '.json')
    if not os.path.exists(p):
        continue
    c = json.load(open(p))
    if c.get('disabled'):
        continue
    claimed.add(pid)
    checks.append({
        'property_id': pid,
        'quick_cmd': './check %s --tier quick' % pid,
        'thorough_cmd': './check %s --tier thorough' % pid,
        'evidence_file': 'evidence/%s.json' % pid,
        'replay_cmd_template': './check %s --replay {path}' % pid,
        'engine': 'coq-model+correspondence',
        'level_claimed': {'category': 'proof', 'text': c.get('level_text', ''), 'design_ref': c.get('design_ref', 'DESIGN.md section 7, ' + pid)},
        'level_note': c.get('level_note', '; '.join(c.get('assumptions', []))),
        'technique': c.get('technique', 'machine-checked proof in Coq 8.16.1: theorems over an executable Gallina model; model tied to the Go source on every run by (1) differential correspondence (extracted OCaml model vs real code, same extracted property predicate as runtime oracle), (2) source-facts tie lemmas regenerated from the source, (3) Go->Gallina translation of the function bodies with equality proofs to the model (where gen_Cxx_* theorems exist in Props/Cxx.v)'),
    })
na_path = os.path.join(ROOT, 'checks', '_not_applicable.json')
na = json.load(open(na_path)) if os.path.exists(na_path) else {}
not_app = []
for pid in props:
    if pid not in claimed:
        not_app.append({'property_id': pid, 'reason': na.get(pid, 'check not built yet in this development (work in progress; see DESIGN.md section 5 for the plan)')})
hooks_commits = subprocess.run(['git', '-C', '/repo', 'log', '--format=%H %s'], capture_output=True, text=True).stdout.split('\n')
hook_shas = [l.split()[0] for l in hooks_commits if l and l.split(' ', 1)[1].startswith('verif:')]
m = {
    'version': 1,
    'setup_cmd': './setup.sh',
    'hooks': {
        'guard': 'verif',
        'enable': 'go build -tags verif (the harness module replaces github.com/fluffle/goirc by /repo); hook files: client/verif_export.go',
        'baseline_off_cmd': 'cd /repo && timeout 1500 go test -vet=off -count=1 ./...',
        'source_commits': hook_shas,
        'add_only': True,
    },
    'engines': [{'name': 'coq-model+correspondence', 'path': 'check', 'serves_properties': sorted(claimed),
                 'kind_free_text': 'Coq 8.16.1 development (coq/), source-facts translator (translator/), Go correspondence harness (harness/), extracted OCaml model driver (ocaml/), python driver (check)'}],
    'checks': checks,
    'not_applicable': not_app,
    'notes': 'DESIGN.md: approach, trusted base, per-property notes (section 7), seeded changes and which checks catch them (section 8). All checks rebuild from /repo working tree on every run (translator -> coq/Gen, go build -tags verif of the harness). known_findings.json lists recorded findings and fixed defects.',
}
json.dump(m, open(os.path.join(ROOT, 'MANIFEST.json'), 'w'), indent=1)
print('MANIFEST.json: %d checks, %d not_applicable' % (len(checks), len(not_app)))
