#!/bin/sh
# Builds the framework from files on disk only (offline): translator, Coq development,
# extracted model driver, Go harness.
set -e
cd "$(dirname "$0")"
export GOFLAGS=-mod=mod GOPROXY=off GOSUMDB=off GOTOOLCHAIN=local
mkdir -p work evidence replays
(cd translator && timeout 900 go build -o translator .)
./translator/translator /repo coq/Gen
(cd coq && python3 gen_extract.py && sh gen_project.sh && timeout 3000 make -k -j"$(nproc)" >build.log 2>&1 || true)
cp coq/model.ml coq/model.mli ocaml/
(cd ocaml && timeout 900 ocamlfind ocamlopt -w -a -inline 100 model.mli model.ml modelrun.ml -o modelrun)
cp /repo/go.sum harness/go.sum
(cd harness && timeout 900 go build -tags verif -o h .)
echo setup done
